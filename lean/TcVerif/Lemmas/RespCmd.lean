/-
  Command layer: every reply is a well-formed value.
-/
import TcVerif.Lemmas.RespConn

namespace TcVerif.Resp

open TcVerif.Gen

/-- what the theorems assume about the limiter's answer: integers are `i64`s, the error text
    (a Rust `String` rendered by `format!("ERR {e}")`) is valid UTF-8 and has no CR LF -/
def AnswerOK : ActorAnswer → Prop
  | .ok _ l r rs rt => inI64 l = true ∧ inI64 r = true ∧ inI64 rs = true ∧ inI64 rt = true
  | .err msg => validUtf8 msg = true ∧ noCRLF msg = true

theorem WF_iff {v : Value} : WF v ↔ sizesOk v = true ∧ depth v ≤ RESP_MAX_DEPTH := by
  simp only [WF, wf, Bool.and_eq_true, decide_eq_true_eq]

theorem WF_array_mem {xs : List Value} (h : WF (.array xs)) : ∀ x ∈ xs, WF x := by
  intro x hx
  rw [WF_iff] at h ⊢
  simp only [sizesOk, Bool.and_eq_true, decide_eq_true_eq, depth] at h
  have := depthList_mem xs x hx
  exact ⟨sizesOkList_mem h.1.2 x hx, by omega⟩

theorem WF_error_of {s : List UInt8} (h1 : validUtf8 s = true) (h2 : noCRLF s = true) :
    WF (.error s) := by
  rw [WF_iff]; simp [sizesOk, depth, h1, h2]

theorem handlePing_wf {args : List Value} (h : ∀ x ∈ args, WF x) : WF (handlePing args) := by
  unfold handlePing
  split
  · decide
  · exact h _ (by simp)
  · decide

theorem handleThrottle_wf {args : List Value} {r : Value} (h : handleThrottle args = .reply r) :
    WF r := by
  unfold handleThrottle at h
  repeat' split at h
  all_goals first
    | (cases h; decide)
    | cases h

theorem unknown_wf {up : List UInt8} (h : validUtf8 up = true) :
    WF (.error (b!"ERR unknown command '" ++ sanitize up ++ b!"'")) := by
  apply WF_error_of
  · exact validUtf8_append _ _ (validUtf8_append _ _ (by decide) (validUtf8_sanitize h)) (by decide)
  · apply noCRLF_no_cr
    intro c hc
    simp only [List.mem_append] at hc
    rcases hc with (hc | hc) | hc
    · revert c; decide
    · exact sanitize_no_cr up c hc
    · revert c; decide

/-- immediate replies are well-formed -/
theorem plan_reply_wf {v : Value} {upper : Option (List UInt8)} {r : Value} (hv : WF v)
    (hu : ∀ u, upper = some u → validUtf8 u = true) (h : plan v upper = .reply r) : WF r := by
  unfold plan at h
  split at h
  · cases h; decide
  · rename_i first rest
    have hmem := WF_array_mem hv
    split at h
    · rename_i c up
      split at h
      · cases h; exact handlePing_wf hmem
      · split at h
        · exact handleThrottle_wf h
        · split at h
          · cases h; decide
          · cases h; exact unknown_wf (hu up rfl)
    · cases h; decide
  · cases h; decide

theorem boolInt_range (b : Bool) : inI64 (boolInt b) = true := by cases b <;> decide

theorem finish_wf {a : ActorAnswer} (ha : AnswerOK a) : WF (finish a) := by
  cases a with
  | ok al l r rs rt =>
    simp only [AnswerOK] at ha
    rw [WF_iff]
    simp only [finish, sizesOk, sizesOkList, depth, depthList, boolInt_range, ha.1, ha.2.1,
      ha.2.2.1, ha.2.2.2, Bool.and_self, Bool.and_true, decide_eq_true_eq, List.length_cons,
      List.length_nil]
    decide
  | err msg =>
    simp only [AnswerOK] at ha
    simp only [finish]
    apply WF_error_of
    · exact validUtf8_append _ _ (by decide) ha.1
    · exact noCRLF_prefix _ _ (by decide) ha.2

/-- the reply to a command, given the limiter's answer for the case that it is asked -/
def replyOf (v : Value) (upper : Option (List UInt8)) (a : ActorAnswer) : Value :=
  match plan v upper with
  | .reply r => r
  | .send _ => finish a

theorem replyOf_wf {v : Value} {upper : Option (List UInt8)} {a : ActorAnswer} (hv : WF v)
    (hu : ∀ u, upper = some u → validUtf8 u = true) (ha : AnswerOK a) :
    WF (replyOf v upper a) := by
  unfold replyOf
  split
  · rename_i r hr; exact plan_reply_wf hv hu hr
  · exact finish_wf ha

theorem respond_eq (actor : ThrottleReq → ActorAnswer) (upperOf : List UInt8 → List UInt8)
    (v : Value) :
    respond actor upperOf v = match plan v (upperFor upperOf v) with
      | .reply r => r
      | .send req => finish (actor req) := rfl

theorem respond_wf {actor : ThrottleReq → ActorAnswer} {upperOf : List UInt8 → List UInt8}
    {v : Value} (hv : WF v) (hup : ∀ s, validUtf8 s = true → validUtf8 (upperOf s) = true)
    (hact : ∀ req, AnswerOK (actor req)) : WF (respond actor upperOf v) := by
  rw [respond_eq]
  split
  · rename_i r hr
    refine plan_reply_wf hv ?_ hr
    intro u hu
    unfold upperFor at hu
    split at hu
    · rename_i c rest
      cases hu
      apply hup
      have := WF_array_mem hv (.bulk (some c)) (by simp)
      rw [WF_iff] at this
      simp only [sizesOk, Bool.and_eq_true] at this
      exact this.1.1
    · cases hu
  · exact finish_wf (hact _)

theorem upperFor_valid {upperOf : List UInt8 → List UInt8} {v : Value} (hv : WF v)
    (hup : ∀ s, validUtf8 s = true → validUtf8 (upperOf s) = true) :
    ∀ u, upperFor upperOf v = some u → validUtf8 u = true := by
  intro u hu
  unfold upperFor at hu
  split at hu
  · rename_i c rest
    cases hu
    apply hup
    have := WF_array_mem hv (.bulk (some c)) (by simp)
    rw [WF_iff] at this
    simp only [sizesOk, Bool.and_eq_true] at this
    exact this.1.1
  · cases hu

theorem respondS_wf {σ : Type} {actor : σ → ThrottleReq → ActorAnswer × σ}
    {upperOf : List UInt8 → List UInt8} {st : σ} {v : Value} (hv : WF v)
    (hup : ∀ s, validUtf8 s = true → validUtf8 (upperOf s) = true)
    (hact : ∀ st req, AnswerOK (actor st req).1) : WF (respondS actor upperOf st v).1 := by
  unfold respondS
  split
  · rename_i r hr
    exact plan_reply_wf hv (upperFor_valid hv hup) hr
  · exact finish_wf (hact _ _)

theorem replies_wf {σ : Type} {actor : σ → ThrottleReq → ActorAnswer × σ}
    {upperOf : List UInt8 → List UInt8}
    (hup : ∀ s, validUtf8 s = true → validUtf8 (upperOf s) = true)
    (hact : ∀ st req, AnswerOK (actor st req).1) :
    ∀ (st : σ) (vs : List Value), (∀ v ∈ vs, WF v) →
      ∀ r ∈ (replies actor upperOf st vs).1, WF r
  | st, [], _, r, hr => by simp [replies] at hr
  | st, v :: vs, hvs, r, hr => by
    simp only [replies, List.mem_cons] at hr
    rcases hr with rfl | hr
    · exact respondS_wf (hvs v (by simp)) hup hact
    · exact replies_wf hup hact _ vs (fun w hw => hvs w (by simp [hw])) r hr

theorem replies_length {σ : Type} (actor : σ → ThrottleReq → ActorAnswer × σ)
    (upperOf : List UInt8 → List UInt8) :
    ∀ (st : σ) (vs : List Value), (replies actor upperOf st vs).1.length = vs.length
  | st, [] => rfl
  | st, v :: vs => by simp [replies, replies_length actor upperOf _ vs]

end TcVerif.Resp
