/-
  Window bound for arbitrary timestamp order on a store that never physically removes
  entries (the key's cell / the abstract map): the stored TAT only moves forward in
  processing order, so admissions stamped inside [t1,t2] are pinned between t1 - E and t2 + τ.
-/
import TcVerif.Lemmas.NonMono
import TcVerif.Lemmas.History
namespace TcVerif
open Data

/-- all requests of the (single-key) history are in the domain; no ordering assumption -/
def AllOK (ei : Int → Int → Int) (E B : Int) : List Req → Prop
  | [] => True
  | r :: rs => ReqOK E B r ∧ ei r.count r.period = E ∧ AllOK ei E B rs

theorem window_any_order {ei : Int → Int → Int} {E B : Int} (rs : List Req) (c : Cell) (t1 t2 : Int)
    (h : AllOK ei E B rs) (hinv : CellInv E B c) :
    admittedCredit E t1 t2 (runTagged Cell.ops ei c rs)
      ≤ max (t2 + (B * E - E) - max (Cell.tatOr (t1 - E) c) (t1 - E)) 0 := by
  induction rs generalizing c with
  | nil => simp only [runTagged, admittedCredit]; omega
  | cons r rs ih =>
    obtain ⟨h1, h2, h3⟩ := h
    have f := cell_step_nonmono c r h1 hinv
    have hE := h1.dom.hE
    have hq0 : 0 ≤ r.qty * E := Int.mul_nonneg h1.valid.1 (by omega)
    simp only [runTagged, admittedCredit, h2]
    have ih' := ih _ h3 f.inv
    generalize admittedCredit E t1 t2 (runTagged Cell.ops ei (rateLimitE Cell.ops c E r).1 rs) = W at *
    by_cases hw : (rateLimitE Cell.ops c E r).2.1.allowed = true ∧ 0 < r.qty
    · obtain ⟨v', hc', hv1, hv2, hv3⟩ := f.written hw
      rw [hc'] at ih'
      simp only [Cell.tatOr] at ih'
      have hold : Cell.tatOr (t1 - E) c ≤ max (Cell.tatOr (r.now - E) c) (t1 - E) := by
        cases c <;> simp [Cell.tatOr] <;> omega
      by_cases hin : t1 ≤ r.now ∧ r.now ≤ t2
      · simp only [hw.1, hin, and_self, if_true]
        omega
      · have : ¬ ((rateLimitE Cell.ops c E r).2.1.allowed = true ∧ t1 ≤ r.now ∧ r.now ≤ t2) := fun hh => hin hh.2
        simp only [this, if_false]
        cases c with
        | none => simp only [Cell.tatOr] at hv1 hold ⊢; omega
        | some pr => obtain ⟨v, e⟩ := pr; simp only [Cell.tatOr] at hv1 hold ⊢; omega
    · have hc' := f.unchanged hw
      rw [hc'] at ih'
      by_cases ha : (rateLimitE Cell.ops c E r).2.1.allowed = true
      · have hnq : ¬ 0 < r.qty := fun hh => hw ⟨ha, hh⟩
        have hq : r.qty = 0 := by have := h1.valid.1; omega
        simp only [hq, Int.zero_mul]
        split <;> omega
      · have : ¬ ((rateLimitE Cell.ops c E r).2.1.allowed = true ∧ t1 ≤ r.now ∧ r.now ≤ t2) := fun hh => ha hh.1
        simp only [this, if_false]
        omega

/-! ### exact projection of the abstract map onto a key's cell (no time indexing: the abstract map
    never removes anything) -/

def RKx (k : Key) (_now : Int) (a : AMap) (c : Cell) : Prop := a.data.find k = c

theorem live_of_find (d : Data) (k : Key) (now : Int) (c : Cell) (h : d.find k = c) :
    Data.live d now k = Cell.live c now := by
  unfold Data.live Cell.live
  rw [h]
  cases c with
  | none => rfl
  | some p => rfl

theorem amap_sim_cell_exact (k : Key) : OpsSimOn (fun k' => k' = k) AMap.ops Cell.ops (RKx k) where
  mono := fun _ hr => hr
  get := by
    intro now a c k' hk hr
    subst hk
    simp only [AMap.ops, Cell.ops]
    rw [get_eq_live, live_of_find _ _ _ _ hr]
  cas := by
    intro now a c k' old new ttl hk hr
    subst hk
    unfold RKx at *
    simp only [AMap.ops, Cell.ops]
    rw [cas_eq, live_of_find _ _ _ _ hr]
    cases hl : Cell.live c now with
    | none => simp only; exact ⟨trivial, hr⟩
    | some p =>
      obtain ⟨cur, e⟩ := p
      by_cases hc : cur = old
      · simp only [hc, if_true]
        exact ⟨trivial, by rw [find_insert]; simp⟩
      · simp only [hc, if_false]
        exact ⟨trivial, hr⟩
  setnx := by
    intro now a c k' v ttl hk hr
    subst hk
    unfold RKx at *
    simp only [AMap.ops, Cell.ops]
    rw [setnx_eq, live_of_find _ _ _ _ hr]
    cases hl : Cell.live c now with
    | none => simp only; exact ⟨trivial, by rw [find_insert]; simp⟩
    | some p => simp only; exact ⟨trivial, hr⟩

/-- projection for ANY timestamp order -/
theorem runTagged_project_any (ei : Int → Int → Int) (k : Key) (rs : List Req) (a : AMap) (c : Cell)
    (hr : RKx k 0 a c) :
    (runTagged AMap.ops ei a rs).filter (fun p => p.1.key = k)
      = runTagged Cell.ops ei c (rs.filter (fun r => r.key = k)) := by
  induction rs generalizing a c with
  | nil => rfl
  | cons r rs ih =>
    by_cases hk : r.key = k
    · have hr' : RKx k r.now a c := hr
      obtain ⟨h1, h2⟩ := rateLimitE_sim (amap_sim_cell_exact k) a c (ei r.count r.period) r hk hr'
      have h1' : (rateLimitE AMap.ops a (ei r.count r.period) r).2.1 = (rateLimitE Cell.ops c (ei r.count r.period) r).2.1 := by
        rw [h1]
      simp only [runTagged, List.filter, hk, decide_true]
      rw [h1']
      congr 1
      exact ih _ _ h2
    · have hk' : decide (r.key = k) = false := by simp [hk]
      simp only [runTagged, List.filter, hk']
      apply ih _ c
      unfold RKx at *
      rw [rateLimitE_amap_other a _ r k hk]; exact hr

end TcVerif
