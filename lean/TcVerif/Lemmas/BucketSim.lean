/-
  The GCRA cell simulates the ideal token bucket (the heart of C01/C02/C03).
-/
import TcVerif.Lemmas.Arith
import TcVerif.Lemmas.Cell
import TcVerif.Model.Bucket
namespace TcVerif

/-- a valid request (passes parameter validation) -/
def Req.valid (r : Req) : Prop := 0 ≤ r.qty ∧ 0 < r.burst ∧ 0 < r.count ∧ 0 < r.period

theorem maxRetries_pos : MAX_RETRIES = 9 + 1 := by decide

theorem rlLoop_cell (n : Nat) (c : Cell) (E : Int) (r : Req) (tr : List StoreOp) :
    (rlLoop Cell.ops (n + 1) c E r tr).1 =
        (if (decision E r (Cell.ops.get c r.key r.now)).write
         then some ((decision E r (Cell.ops.get c r.key r.now)).newTat,
                    r.now + (decision E r (Cell.ops.get c r.key r.now)).ttl)
         else c) ∧
    (rlLoop Cell.ops (n + 1) c E r tr).2.1 = (decision E r (Cell.ops.get c r.key r.now)).outcome := by
  simp only [rlLoop]
  by_cases hw : (decision E r (Cell.ops.get c r.key r.now)).write = true
  · simp only [hw, if_true]
    cases hlive : Cell.live c r.now with
    | none =>
      have hg : Cell.ops.get c r.key r.now = none := by simp [Cell.ops, hlive]
      simp only [hg] at hw ⊢
      simp [Cell.ops, hlive]
    | some p =>
      obtain ⟨v, e⟩ := p
      have hg : Cell.ops.get c r.key r.now = some v := by simp [Cell.ops, hlive]
      simp only [hg] at hw ⊢
      simp [Cell.ops, hlive]
  · simp only [hw]
    simp

/-- on a cell, the write that follows a `get` at the same instant always succeeds:
    `rate_limit` never iterates and never returns the internal error -/
theorem rateLimitE_cell (c : Cell) (E : Int) (r : Req) (hv : r.valid) :
    (rateLimitE Cell.ops c E r).1 =
        (if (decision E r (Cell.ops.get c r.key r.now)).write
         then some ((decision E r (Cell.ops.get c r.key r.now)).newTat,
                    r.now + (decision E r (Cell.ops.get c r.key r.now)).ttl)
         else c) ∧
    (rateLimitE Cell.ops c E r).2.1 = (decision E r (Cell.ops.get c r.key r.now)).outcome := by
  obtain ⟨h1, h2, h3, h4⟩ := hv
  have hq : ¬ r.qty < 0 := by omega
  have hl : ¬ (r.burst ≤ 0 ∨ r.count ≤ 0 ∨ r.period ≤ 0) := by omega
  simp only [rateLimitE, hq, hl, if_false, maxRetries_pos]
  exact rlLoop_cell 9 c E r []

def CellOK (pad τ t : Int) : Cell → Prop
  | none => True
  | some (v, e) => e = v + pad ∧ -TWO60 ≤ v ∧ v ≤ t + τ

def LvlOK (be τ ts lvl : Int) : Cell → Prop
  | none => lvl = be
  | some (v, _) => lvl = min be (ts + τ - v)

/-- relation between a key's cell and its ideal bucket; `t` = time of the last request -/
def Rel (E B : Int) (c : Cell) (b : Option Bucket) (t : Int) : Prop :=
  CellOK (max (B * E - E) E) (B * E - E) t c ∧
  (match b with
   | none => c = none
   | some bk => bk.ts ≤ t ∧ 0 ≤ bk.lvl ∧ bk.lvl ≤ B * E ∧ LvlOK (B * E) (B * E - E) bk.ts bk.lvl c)

theorem rel_fresh (E B t : Int) : Rel E B none none t := ⟨trivial, rfl⟩

/-- the refilled bucket level is exactly the GCRA head-room `now + τ - tat` -/
theorem refill_eq {E B : Int} (hD : DomD E B) (c : Cell) (b : Option Bucket) (t now : Int) (k : Key)
    (hrel : Rel E B c b t) (ht : t ≤ now) :
    Bucket.refill (B * E) b now = now + (B * E - E) - gTat E now (Cell.ops.get c k now) := by
  have hE := hD.hE; have hEle := hD.E_le
  obtain ⟨hc, hb⟩ := hrel
  cases c with
  | none =>
    have hg : Cell.ops.get none k now = none := rfl
    rw [hg]
    simp only [gTat, effTat]
    cases b with
    | none => simp only [Bucket.refill]; omega
    | some bk =>
      obtain ⟨h1, h2, h3, h4⟩ := hb
      simp only [Bucket.refill]
      simp only [LvlOK] at h4
      omega
  | some p =>
    obtain ⟨v, e⟩ := p
    obtain ⟨he, hv0, hv1⟩ := hc
    cases b with
    | none => simp at hb
    | some bk =>
      obtain ⟨h1, h2, h3, h4⟩ := hb
      simp only [LvlOK] at h4
      simp only [Bucket.refill]
      by_cases hlive : e > now
      · have hg : Cell.ops.get (some (v, e)) k now = some v := by simp [Cell.ops, Cell.live, hlive]
        rw [hg]
        simp only [gTat, effTat]
        omega
      · have hg : Cell.ops.get (some (v, e)) k now = none := by simp [Cell.ops, Cell.live, hlive]
        rw [hg]
        simp only [gTat, effTat]
        omega

theorem get_cell_bounds {E B : Int} (hD : DomD E B) (c : Cell) (b : Option Bucket) (t now : Int) (k : Key)
    (hrel : Rel E B c b t) (ht : t ≤ now) (hn1 : now ≤ T_MAX) :
    ∀ v, Cell.ops.get c k now = some v → -TWO62 ≤ v ∧ v ≤ V_MAX := by
  intro v hv
  have hBE := hD.hBE; have hE := hD.hE
  obtain ⟨hc, _⟩ := hrel
  cases c with
  | none => simp [Cell.ops, Cell.live] at hv
  | some p =>
    obtain ⟨v', e⟩ := p
    obtain ⟨he, hv0, hv1⟩ := hc
    by_cases hlive : e > now
    · have : v = v' := by simp [Cell.ops, Cell.live, hlive] at hv; omega
      subst this
      constructor <;> bnd
    · simp [Cell.ops, Cell.live, hlive] at hv

/-- hypotheses for one request of a fixed-limits key inside the domain -/
structure StepD (E B : Int) (t : Int) (r : Req) : Prop where
  dom : DomD E B
  burst : r.burst = B
  valid : r.valid
  mono : t ≤ r.now
  now0 : 0 ≤ r.now
  now1 : r.now ≤ T_MAX

/-- **One step of the simulation**: the limiter's cell and the ideal bucket take the same decision,
    report the same remaining tokens, and stay related. -/
theorem cell_bucket_step {E B : Int} (c : Cell) (b : Option Bucket) (t : Int) (r : Req)
    (h : StepD E B t r) (hrel : Rel E B c b t) :
    (rateLimitE Cell.ops c E r).2.1.isOk = true ∧
    (rateLimitE Cell.ops c E r).2.1.allowed = (Bucket.step B E b r.now r.qty).2.1 ∧
    (rateLimitE Cell.ops c E r).2.1.remaining = (Bucket.step B E b r.now r.qty).2.2 ∧
    (rateLimitE Cell.ops c E r).2.1.limit = B ∧
    Rel E B (rateLimitE Cell.ops c E r).1 (Bucket.step B E b r.now r.qty).1 r.now := by
  obtain ⟨hD, hb, hv, hm, hn0, hn1⟩ := h
  have hE := hD.hE; have hB := hD.hB; have hBE := hD.hBE; have hEle := hD.E_le
  obtain ⟨hst, hout⟩ := rateLimitE_cell c E r hv
  have hreq : ReqD E B r (Cell.ops.get c r.key r.now) :=
    ⟨hD, hb, hv.1, hn0, hn1, get_cell_bounds hD c b t r.now r.key hrel hm hn1⟩
  have hlvl := refill_eq hD c b t r.now r.key hrel hm
  -- name the ideal quantities
  obtain ⟨be, hbe⟩ : ∃ be, be = B * E := ⟨_, rfl⟩
  obtain ⟨τ, hτ⟩ : ∃ τ, τ = B * E - E := ⟨_, rfl⟩
  obtain ⟨tat, htat⟩ : ∃ tat, tat = gTat E r.now (Cell.ops.get c r.key r.now) := ⟨_, rfl⟩
  obtain ⟨p, hp⟩ : ∃ p, p = E * r.qty := ⟨_, rfl⟩
  obtain ⟨pad, hpad⟩ : ∃ pad, pad = max τ E := ⟨_, rfl⟩
  have hpad1 : τ ≤ pad := by rw [hpad]; exact Int.le_max_left _ _
  have hpad2 : E ≤ pad := by rw [hpad]; exact Int.le_max_right _ _
  have hpad3 : pad = τ ∨ pad = E := by rw [hpad]; omega
  obtain ⟨d1, d2, d3, d4, d5, d6, d7, d8, d9, d10, d11, d12, d13⟩ := decision_D hreq τ tat p hτ htat hp
  rw [hst, hout]
  generalize decision E r (Cell.ops.get c r.key r.now) = d at *
  have hp0 : 0 ≤ p := by rw [hp]; exact Int.mul_nonneg (by omega) hv.1
  have hpq : r.qty * E = p := by rw [hp]; exact Int.mul_comm _ _
  obtain ⟨lvl, hll⟩ : ∃ lvl, lvl = Bucket.refill (B * E) b r.now := ⟨_, rfl⟩
  rw [← hτ, ← htat, ← hll] at hlvl
  have hlvl_le : lvl ≤ be := by
    rw [hll, hbe]; unfold Bucket.refill; cases b <;> simp <;> omega
  have hlvl_ge : 0 ≤ lvl := by
    rw [hll]; unfold Bucket.refill
    cases b with
    | none => simp only; omega
    | some bk => have := hrel.2; simp only at this ⊢; omega
  have htat_lo : r.now - E ≤ tat := by
    rw [htat]; unfold gTat effTat; cases Cell.ops.get c r.key r.now <;> simp <;> omega
  have hallowed : d.allowed = decide (p ≤ lvl) := by
    by_cases hx : p ≤ lvl
    · have : d.allowed = true := d2.mpr (by omega)
      simp [this, hx]
    · have : ¬ d.allowed = true := fun hh => hx (by have := d2.mp hh; omega)
      simp [hx, this]
  have hstep : Bucket.step B E b r.now r.qty =
      (some ⟨if decide (p ≤ lvl) = true then lvl - p else lvl, r.now⟩, decide (p ≤ lvl),
        (if decide (p ≤ lvl) = true then lvl - p else lvl) / E) := by
    simp only [Bucket.step, hpq, ← hll]
  rw [hstep]
  refine ⟨d6, by rw [d7, hallowed], ?_, d8, ?_⟩
  · -- remaining
    rw [d9, hallowed]
    by_cases hx : p ≤ lvl
    · simp only [hx, decide_true, if_true]
      have h0 : 0 ≤ lvl - p := by omega
      have : r.now + τ - (tat + p) = lvl - p := by omega
      rw [this, Int.tdiv_eq_ediv_of_nonneg h0]
      have := Int.ediv_nonneg h0 (by omega : (0 : Int) ≤ E)
      omega
    · simp only [hx, decide_false, Bool.false_eq_true, if_false]
      have h0 : 0 ≤ lvl := by omega
      have : r.now + τ - tat = lvl := by omega
      rw [this, Int.tdiv_eq_ediv_of_nonneg h0]
      have := Int.ediv_nonneg h0 (by omega : (0 : Int) ≤ E)
      omega
  · -- the relation is preserved
    rw [d5, hallowed]
    obtain ⟨hc, hbk⟩ := hrel
    unfold Rel
    rw [← hτ, ← hpad, ← hbe]
    have hcell_keep : CellOK pad τ r.now c := by
      cases c with
      | none => trivial
      | some pr =>
        obtain ⟨v, e⟩ := pr
        rw [← hτ, ← hpad] at hc
        exact ⟨hc.1, hc.2.1, by have := hc.2.2; omega⟩
    have hlvl_keep : LvlOK be τ r.now lvl c := by
      cases c with
      | none =>
        have hg : Cell.ops.get none r.key r.now = none := rfl
        rw [hg] at htat
        simp only [gTat, effTat] at htat
        simp only [LvlOK]
        omega
      | some pr =>
        obtain ⟨v, e⟩ := pr
        rw [← hτ, ← hpad] at hc
        obtain ⟨he, hv0, hv1⟩ := hc
        simp only [LvlOK]
        by_cases hlive : e > r.now
        · have hg : Cell.ops.get (some (v, e)) r.key r.now = some v := by simp [Cell.ops, Cell.live, hlive]
          rw [hg] at htat
          simp only [gTat, effTat] at htat
          omega
        · have hg : Cell.ops.get (some (v, e)) r.key r.now = none := by simp [Cell.ops, Cell.live, hlive]
          rw [hg] at htat
          simp only [gTat, effTat] at htat
          omega
    by_cases hx : p ≤ lvl
    · by_cases hq : r.qty > 0
      · -- admitted, written
        have hsmall : p ≤ TWO61 := by bnd
        have e3 := d3 hsmall
        have e4 := d4 hsmall
        simp only [hx, hq, decide_true, Bool.and_self, if_true, e3, e4]
        refine ⟨⟨by omega, by bnd, by omega⟩, Int.le_refl _, by omega, by omega, ?_⟩
        simp only [LvlOK]
        omega
      · -- zero quantity: nothing written, nothing consumed
        have hq0 : r.qty = 0 := by have := hv.1; omega
        have hp00 : p = 0 := by rw [hp, hq0]; simp
        simp only [hx, hq, decide_true, decide_false, Bool.and_false, Bool.false_eq_true, if_false, if_true]
        refine ⟨hcell_keep, Int.le_refl _, by omega, by omega, ?_⟩
        rw [hp00]
        simp only [Int.sub_zero]
        exact hlvl_keep
    · simp only [hx, decide_false, Bool.false_and, Bool.false_eq_true, if_false]
      exact ⟨hcell_keep, Int.le_refl _, by omega, by omega, hlvl_keep⟩

end TcVerif
