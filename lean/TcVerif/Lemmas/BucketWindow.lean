/-
  Rate conformance of the ideal token bucket: over ANY window [t1,t2] the credit admitted
  is at most capacity + window length.  (Transported to the implementation model by the
  simulation of BucketSim.lean.)
-/
import TcVerif.Model.Bucket
namespace TcVerif

/-- credit (`q*E`) admitted by the bucket for requests stamped inside `[t1,t2]` -/
def Bucket.windowSum (B E t1 t2 : Int) : Option Bucket → List (Int × Int) → Int
  | _, [] => 0
  | b, (t, q) :: rest =>
    (if (Bucket.step B E b t q).2.1 = true ∧ t1 ≤ t ∧ t ≤ t2 then q * E else 0)
      + Bucket.windowSum B E t1 t2 (Bucket.step B E b t q).1 rest

/-- requests are stamped in non-decreasing order, not before `t0`, with non-negative quantities -/
def SortedReqs : Int → List (Int × Int) → Prop
  | _, [] => True
  | t0, (t, q) :: rest => t0 ≤ t ∧ 0 ≤ q ∧ SortedReqs t rest

/-- the potential: how much credit can still be admitted inside the window from state `b` -/
def Bucket.potential (BE t1 t2 : Int) : Option Bucket → Int
  | none => BE + (t2 - t1)
  | some b =>
    if b.ts > t2 then 0
    else if b.ts ≥ t1 then b.lvl + (t2 - b.ts)
    else min BE (b.lvl + (t1 - b.ts)) + (t2 - t1)

def Bucket.wf (BE : Int) : Option Bucket → Prop
  | none => True
  | some b => 0 ≤ b.lvl ∧ b.lvl ≤ BE

def Bucket.tsOf : Option Bucket → Int → Int
  | none, d => d
  | some b, _ => b.ts

theorem Bucket.windowSum_le_potential (B E t1 t2 : Int) (hE : 0 ≤ E) (hBE : 0 ≤ B * E) (h12 : t1 ≤ t2)
    (b : Option Bucket) (l : List (Int × Int)) (t0 : Int)
    (hwf : Bucket.wf (B * E) b) (hts : ∀ bk, b = some bk → bk.ts ≤ t0) (hs : SortedReqs t0 l) :
    Bucket.windowSum B E t1 t2 b l ≤ Bucket.potential (B * E) t1 t2 b ∧ 0 ≤ Bucket.windowSum B E t1 t2 b l := by
  induction l generalizing b t0 with
  | nil =>
    simp only [Bucket.windowSum]
    refine ⟨?_, Int.le_refl 0⟩
    cases b with
    | none => simp only [Bucket.potential]; omega
    | some bk =>
      obtain ⟨h1, h2⟩ := hwf
      simp only [Bucket.potential]
      split
      · omega
      · split <;> omega
  | cons x rest ih =>
    obtain ⟨t, q⟩ := x
    obtain ⟨ht0, hq, hrest⟩ := hs
    have hqE : 0 ≤ q * E := Int.mul_nonneg hq hE
    generalize hp : q * E = p at *
    -- the refilled level
    obtain ⟨lvl, hlvl⟩ : ∃ lvl, lvl = Bucket.refill (B * E) b t := ⟨_, rfl⟩
    have hl0 : 0 ≤ lvl ∧ lvl ≤ B * E := by
      rw [hlvl]; unfold Bucket.refill
      cases b with
      | none => simp only; omega
      | some bk =>
        obtain ⟨h1, h2⟩ := hwf
        have := hts bk rfl
        simp only; omega
    have hstep : Bucket.step B E b t q =
        (some ⟨if decide (p ≤ lvl) = true then lvl - p else lvl, t⟩, decide (p ≤ lvl),
          (if decide (p ≤ lvl) = true then lvl - p else lvl) / E) := by
      simp only [Bucket.step, hp, ← hlvl]
    simp only [Bucket.windowSum, hstep, hp]
    have hwf' : Bucket.wf (B * E) (some ⟨if decide (p ≤ lvl) = true then lvl - p else lvl, t⟩) := by
      simp only [Bucket.wf]
      by_cases hx : p ≤ lvl <;> simp [hx] <;> omega
    obtain ⟨ih1, ih2⟩ := ih (some ⟨if decide (p ≤ lvl) = true then lvl - p else lvl, t⟩) t hwf'
      (by intro bk hbk; cases hbk; exact Int.le_refl _) hrest
    generalize Bucket.windowSum B E t1 t2 (some ⟨if decide (p ≤ lvl) = true then lvl - p else lvl, t⟩) rest = W at *
    simp only [Bucket.potential] at ih1
    constructor
    · -- upper bound
      by_cases hx : p ≤ lvl
      · simp only [hx, decide_true, if_true, true_and] at ih1 ⊢
        cases b with
        | none =>
          simp only [Bucket.refill] at hlvl
          simp only [Bucket.potential]
          by_cases hw : t1 ≤ t ∧ t ≤ t2
          · simp only [hw, and_self, if_true]
            have : ¬ t > t2 := by omega
            have h3 : t ≥ t1 := hw.1
            simp only [this, h3, if_false, if_true] at ih1
            omega
          · simp only [hw, if_false]
            split at ih1
            · omega
            · split at ih1 <;> omega
        | some bk =>
          obtain ⟨h1, h2⟩ := hwf
          have hbt := hts bk rfl
          simp only [Bucket.refill] at hlvl
          simp only [Bucket.potential]
          by_cases hw : t1 ≤ t ∧ t ≤ t2
          · simp only [hw, and_self, if_true]
            have : ¬ t > t2 := by omega
            have h3 : t ≥ t1 := hw.1
            simp only [this, h3, if_false, if_true] at ih1
            split
            · omega
            · split <;> omega
          · simp only [hw, if_false]
            split at ih1
            · split
              · omega
              · split <;> omega
            · split at ih1
              · omega
              · split
                · omega
                · split <;> omega
      · simp only [hx, decide_false, Bool.false_eq_true, if_false, false_and] at ih1 ⊢
        cases b with
        | none =>
          simp only [Bucket.refill] at hlvl
          simp only [Bucket.potential]
          split at ih1
          · omega
          · split at ih1 <;> omega
        | some bk =>
          obtain ⟨h1, h2⟩ := hwf
          have hbt := hts bk rfl
          simp only [Bucket.refill] at hlvl
          simp only [Bucket.potential]
          split at ih1
          · split
            · omega
            · split <;> omega
          · split at ih1
            · split
              · omega
              · split <;> omega
            · split
              · omega
              · split <;> omega
    · split <;> omega

/-- **Window bound of the ideal bucket**, from any well-formed state -/
theorem Bucket.window_bound (B E t1 t2 : Int) (hE : 0 ≤ E) (hBE : 0 ≤ B * E) (h12 : t1 ≤ t2)
    (b : Option Bucket) (l : List (Int × Int)) (t0 : Int)
    (hwf : Bucket.wf (B * E) b) (hts : ∀ bk, b = some bk → bk.ts ≤ t0) (hs : SortedReqs t0 l) :
    Bucket.windowSum B E t1 t2 b l ≤ B * E + (t2 - t1) := by
  have h := (Bucket.windowSum_le_potential B E t1 t2 hE hBE h12 b l t0 hwf hts hs).1
  have : Bucket.potential (B * E) t1 t2 b ≤ B * E + (t2 - t1) := by
    cases b with
    | none => simp only [Bucket.potential]; omega
    | some bk =>
      obtain ⟨h1, h2⟩ := hwf
      simp only [Bucket.potential]
      split
      · omega
      · split <;> omega
  omega

end TcVerif
