/-
  Helper lemmas for C16: `escape_prometheus_label` against the label-value lexer.
-/
import TcVerif.Model.Metrics

namespace TcVerif.Metrics

/-- characters that can neither end a label value, nor start an escape, nor break a line -/
def Plain (c : Char) : Prop := c ≠ '"' ∧ c ≠ '\\' ∧ c ≠ '\n' ∧ c ≠ '\r'

instance (c : Char) : Decidable (Plain c) := by unfold Plain; exact inferInstance

theorem hexDigit_plain : ∀ n, n < 16 → Plain (hexDigit n) := by decide

theorem hexDigit_lower : ∀ n, n < 16 → hexDigit n ∈ "0123456789abcdef".toList := by decide

theorem lowByte_lt (c : Char) : lowByte c < 256 := by
  unfold lowByte; omega

/-- the three shapes of an escaped character -/
theorem escapeChar_shape (c : Char) :
    (∃ x, escapeChar c = ['\\', x] ∧ x ≠ '\n' ∧ x ≠ '\r') ∨
    (∃ a b, escapeChar c = ['\\', 'x', a, b] ∧ Plain a ∧ Plain b) ∨
    (escapeChar c = [c] ∧ Plain c) := by
  unfold escapeChar
  split
  · exact Or.inl ⟨_, rfl, by decide, by decide⟩
  · split
    · exact Or.inl ⟨_, rfl, by decide, by decide⟩
    · split
      · exact Or.inl ⟨_, rfl, by decide, by decide⟩
      · split
        · exact Or.inl ⟨_, rfl, by decide, by decide⟩
        · split
          · exact Or.inl ⟨_, rfl, by decide, by decide⟩
          · split
            · have := lowByte_lt c
              exact Or.inr (Or.inl ⟨_, _, rfl, hexDigit_plain _ (by omega), hexDigit_plain _ (by omega)⟩)
            · exact Or.inr (Or.inr ⟨rfl, by assumption, by assumption, by assumption, by assumption⟩)

/-! ## lexer steps -/

def consFst (pre : List Char) (p : List Char × List Char) : List Char × List Char :=
  (pre ++ p.1, p.2)

theorem scanLabel_quote (rest : List Char) : scanLabel ('"' :: rest) = some ([], rest) := by
  simp [scanLabel, scanLabelAux]

theorem scanLabel_backslash (x : Char) (rest : List Char) :
    scanLabel ('\\' :: x :: rest) = (scanLabel rest).map (consFst ['\\', x]) := by
  unfold scanLabel
  rw [scanLabelAux, if_neg (by decide)]
  have : decide ('\\' = '\\') = true := by decide
  rw [this, scanLabelAux]
  cases scanLabelAux false rest with
  | none => rfl
  | some p => rfl

theorem scanLabel_plain {c : Char} (h1 : c ≠ '"') (h2 : c ≠ '\\') (rest : List Char) :
    scanLabel (c :: rest) = (scanLabel rest).map (consFst [c]) := by
  unfold scanLabel
  rw [scanLabelAux, if_neg h1, decide_eq_false h2]
  cases scanLabelAux false rest with
  | none => rfl
  | some p => rfl

theorem consFst_comp (a b : List Char) (o : Option (List Char × List Char)) :
    (o.map (consFst b)).map (consFst a) = o.map (consFst (a ++ b)) := by
  cases o with
  | none => rfl
  | some p => simp [consFst]

theorem scanLabel_escapeChar (c : Char) (rest : List Char) :
    scanLabel (escapeChar c ++ rest) = (scanLabel rest).map (consFst (escapeChar c)) := by
  rcases escapeChar_shape c with ⟨x, hx, _⟩ | ⟨a, b, hab, ha, hb⟩ | ⟨hc, hp⟩
  · rw [hx]; exact scanLabel_backslash x rest
  · rw [hab]
    show scanLabel ('\\' :: 'x' :: a :: b :: rest) = _
    rw [scanLabel_backslash, scanLabel_plain ha.1 ha.2.1, scanLabel_plain hb.1 hb.2.1,
      consFst_comp, consFst_comp]
    rfl
  · rw [hc]; exact scanLabel_plain hp.1 hp.2.1 rest

theorem scanLabel_escapeLabel (k rest : List Char) :
    scanLabel (escapeLabel k ++ rest) = (scanLabel rest).map (consFst (escapeLabel k)) := by
  induction k with
  | nil =>
    simp only [escapeLabel, List.nil_append]
    cases scanLabel rest with
    | none => rfl
    | some p => simp [consFst]
  | cons c k ih =>
    simp only [escapeLabel, List.append_assoc]
    rw [scanLabel_escapeChar, ih, consFst_comp]

/-- a run of plain characters is lexed verbatim up to the quote -/
theorem scanLabel_plain_run (v rest : List Char) (h : ∀ x ∈ v, x ≠ '"' ∧ x ≠ '\\') :
    scanLabel (v ++ '"' :: rest) = some (v, rest) := by
  induction v with
  | nil => exact scanLabel_quote rest
  | cons c v ih =>
    have hc := h c (by simp)
    rw [List.cons_append, scanLabel_plain hc.1 hc.2, ih (fun x hx => h x (by simp [hx]))]
    rfl

/-! ## no line breaks -/

theorem escapeChar_no_break (c x : Char) (h : x ∈ escapeChar c) : x ≠ '\n' ∧ x ≠ '\r' := by
  rcases escapeChar_shape c with ⟨y, hy, h1, h2⟩ | ⟨a, b, hab, ha, hb⟩ | ⟨hc, hp⟩
  · rw [hy] at h
    simp only [List.mem_cons, List.not_mem_nil, or_false] at h
    rcases h with rfl | rfl
    · decide
    · exact ⟨h1, h2⟩
  · rw [hab] at h
    simp only [List.mem_cons, List.not_mem_nil, or_false] at h
    rcases h with rfl | rfl | rfl | rfl
    · decide
    · decide
    · exact ⟨ha.2.2.1, ha.2.2.2⟩
    · exact ⟨hb.2.2.1, hb.2.2.2⟩
  · rw [hc] at h
    simp only [List.mem_cons, List.not_mem_nil, or_false] at h
    subst h
    exact ⟨hp.2.2.1, hp.2.2.2⟩

theorem escapeLabel_no_break (k : List Char) (x : Char) (h : x ∈ escapeLabel k) :
    x ≠ '\n' ∧ x ≠ '\r' := by
  induction k with
  | nil => simp [escapeLabel] at h
  | cons c k ih =>
    simp only [escapeLabel, List.mem_append] at h
    rcases h with h | h
    · exact escapeChar_no_break c x h
    · exact ih h

theorem natDigits_digit (n : Nat) (x : Char) (h : x ∈ natDigits n) : x.isDigit = true :=
  Nat.isDigit_of_mem_toDigits (by decide) (by decide) h

theorem isDigit_plain {x : Char} (h : x.isDigit = true) : Plain x := by
  unfold Plain
  refine ⟨?_, ?_, ?_, ?_⟩ <;> (intro hh; subst hh; revert h; decide)

theorem natDigits_plain (n : Nat) (x : Char) (h : x ∈ natDigits n) : Plain x :=
  isDigit_plain (natDigits_digit n x h)

end TcVerif.Metrics
