/-
  Lemmas about the association-list representation of the stores' tables.
-/
import TcVerif.Model.Store
namespace TcVerif
namespace Data

/-- no key occurs twice (what a `HashMap` guarantees) -/
def NodupKeys : Data → Prop
  | [] => True
  | e :: r => find r e.key = none ∧ NodupKeys r

/-- the entry of `k` as seen at time `now`: present and not expired -/
def live (d : Data) (now : Int) (k : Key) : Option (Int × Int) :=
  match d.find k with
  | some (v, e) => if e > now then some (v, e) else none
  | none => none

@[simp] theorem find_nil (k : Key) : find [] k = none := rfl

theorem find_cons (e : Entry) (r : Data) (k : Key) :
    find (e :: r) k = if e.key = k then some (e.val, e.exp) else find r k := rfl

theorem find_erase_ne (d : Data) (k k' : Key) (h : k ≠ k') :
    find (d.erase k) k' = find d k' := by
  induction d with
  | nil => rfl
  | cons e r ih =>
    by_cases hk : e.key = k
    · subst hk
      simp [erase, find_cons, h, ih]
    · by_cases hk' : e.key = k'
      · subst hk'
        have h2 : ¬ e.key = k := hk
        simp [erase, h2, find_cons]
      · simp [erase, hk, find_cons, hk', ih]

theorem find_erase_eq (d : Data) (k : Key) : find (d.erase k) k = none := by
  induction d with
  | nil => rfl
  | cons e r ih =>
    by_cases hk : e.key = k
    · simp [erase, hk, ih]
    · simp [erase, hk, find_cons, ih]

theorem find_insert (d : Data) (k : Key) (v x : Int) (k' : Key) :
    find (insert d k v x) k' = if k = k' then some (v, x) else find d k' := by
  unfold insert
  by_cases h : k = k'
  · simp only [find_cons, h, if_true]
  · simp only [find_cons, h, if_false, find_erase_ne d k k' h]

theorem find_erase_none (d : Data) (k k' : Key) (h : find d k' = none) :
    find (d.erase k) k' = none := by
  by_cases hk : k = k'
  · subst hk; exact find_erase_eq d k
  · rw [find_erase_ne d k k' hk]; exact h

theorem nodup_erase (d : Data) (k : Key) (h : NodupKeys d) : NodupKeys (d.erase k) := by
  induction d with
  | nil => trivial
  | cons e r ih =>
    obtain ⟨h1, h2⟩ := h
    by_cases hk : e.key = k
    · simp only [erase, hk, if_true]; exact ih h2
    · simp only [erase, hk, if_false]
      exact ⟨find_erase_none r k e.key h1, ih h2⟩

theorem nodup_insert (d : Data) (k : Key) (v x : Int) (h : NodupKeys d) :
    NodupKeys (insert d k v x) := by
  unfold insert
  exact ⟨find_erase_eq d k, nodup_erase d k h⟩

theorem find_sweep (d : Data) (now : Int) (k : Key) (h : NodupKeys d) :
    find (sweep d now) k =
      match find d k with
      | some (v, e) => if e > now then some (v, e) else none
      | none => none := by
  induction d with
  | nil => rfl
  | cons e r ih =>
    obtain ⟨h1, h2⟩ := h
    have ih := ih h2
    by_cases hek : e.key = k
    · subst hek
      by_cases hx : e.exp > now
      · simp only [sweep, hx, if_true, find_cons]
      · simp only [sweep, hx, if_false, find_cons, if_true]
        rw [ih, h1]
    · by_cases hx : e.exp > now
      · simp only [sweep, hx, if_true, find_cons, hek, if_false]
        exact ih
      · simp only [sweep, hx, if_false, find_cons, hek]
        exact ih

theorem find_sweep_none (d : Data) (now : Int) (k : Key) (h : find d k = none) :
    find (sweep d now) k = none := by
  induction d with
  | nil => rfl
  | cons e r ih =>
    rw [find_cons] at h
    by_cases hek : e.key = k
    · simp [hek] at h
    · simp only [hek, if_false] at h
      by_cases hx : e.exp > now
      · simp only [sweep, hx, if_true, find_cons, hek, if_false]; exact ih h
      · simp only [sweep, hx, if_false]; exact ih h

theorem nodup_sweep (d : Data) (now : Int) (h : NodupKeys d) : NodupKeys (sweep d now) := by
  induction d with
  | nil => trivial
  | cons e r ih =>
    obtain ⟨h1, h2⟩ := h
    by_cases hx : e.exp > now
    · simp only [sweep, hx, if_true]
      exact ⟨find_sweep_none r now e.key h1, ih h2⟩
    · simp only [sweep, hx, if_false]; exact ih h2

/-- a sweep at `t ≤ now` is invisible at `now` -/
theorem live_sweep (d : Data) (t now : Int) (k : Key) (h : NodupKeys d) (ht : t ≤ now) :
    live (sweep d t) now k = live d now k := by
  unfold live
  rw [find_sweep d t k h]
  cases hf : find d k with
  | none => rfl
  | some p =>
    obtain ⟨v, e⟩ := p
    by_cases h1 : e > t
    · simp [h1]
    · have : ¬ e > now := by omega
      simp [h1, this]

theorem live_insert (d : Data) (k : Key) (v x now : Int) (k' : Key) :
    live (insert d k v x) now k' =
      if k = k' then (if x > now then some (v, x) else none) else live d now k' := by
  unfold live
  rw [find_insert]
  by_cases h : k = k' <;> simp [h]

/-- what is visible later is what is visible now and has not expired meanwhile -/
theorem live_mono (d : Data) (now now' : Int) (k : Key) (h : now ≤ now') :
    live d now' k =
      match live d now k with
      | some (v, e) => if e > now' then some (v, e) else none
      | none => none := by
  unfold live
  cases hf : find d k with
  | none => rfl
  | some p =>
    obtain ⟨v, e⟩ := p
    by_cases h1 : e > now'
    · have : e > now := by omega
      simp [h1, this]
    · by_cases h2 : e > now <;> simp [h1, h2]

theorem get_eq_live (d : Data) (k : Key) (now : Int) :
    get d k now = (live d now k).map (·.1) := by
  unfold get live
  cases hf : find d k with
  | none => rfl
  | some p =>
    obtain ⟨v, e⟩ := p
    by_cases h1 : e > now <;> simp [h1]

/-- `cas` described through `live` -/
theorem cas_eq (d : Data) (k : Key) (old new ttl now : Int) :
    cas d k old new ttl now =
      match live d now k with
      | some (cur, _) =>
          if cur = old then (d.insert k new (now + ttl), true, false) else (d, false, false)
      | none => (d, false, match find d k with | some _ => true | none => false) := by
  unfold cas live
  cases hf : find d k with
  | none => rfl
  | some p =>
    obtain ⟨v, e⟩ := p
    by_cases h1 : e > now
    · have : ¬ e ≤ now := by omega
      simp [h1, this]
    · have : e ≤ now := by omega
      simp [h1, this]

theorem setnx_eq (d : Data) (k : Key) (v ttl now : Int) :
    setnx d k v ttl now =
      match live d now k with
      | some _ => (d, false, false)
      | none => (d.insert k v (now + ttl), true, match find d k with | some _ => true | none => false) := by
  unfold setnx live
  cases hf : find d k with
  | none => rfl
  | some p =>
    obtain ⟨v', e⟩ := p
    by_cases h1 : e > now <;> simp [h1]

end Data
end TcVerif
