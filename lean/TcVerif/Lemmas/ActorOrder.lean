/-
  Invariants of the actor LTS, part 2: order and uniqueness of events in the log
  (positions are list indices of the append-only log).
-/
import TcVerif.Lemmas.ActorInv
namespace TcVerif.Actor
variable {L Rq Rs : Type}
variable {M : Sys L Rq Rs} {n : Nat} {l0 : L} {s : State L Rq Rs}

/-- the events that end a request from its client's point of view -/
def Event.finishes (id : Id) : Event Rq Rs → Prop
  | .ret id' _ => id' = id
  | .cancelSend id' => id' = id
  | .cancelWait id' => id' = id
  | .fail id' => id' = id
  | _ => False


/-- template for "every event of kind `Need` is preceded by an event related to it by `Pred`" -/
theorem order_template (Need : Event Rq Rs → Prop) (Pred : Event Rq Rs → Event Rq Rs → Prop)
    (hstep : ∀ (s s' : State L Rq Rs) (lb : Label), Reach M n l0 s → Step M s lb s' →
      ∃ e, s'.log = s.log ++ [e] ∧ (Need e → ∃ e' ∈ s.log, Pred e e'))
    (h : Reach M n l0 s) :
    ∀ (k : Nat) (e : Event Rq Rs), s.log[k]? = some e → Need e →
      ∃ j, j < k ∧ ∃ e', s.log[j]? = some e' ∧ Pred e e' := by
  induction h with
  | init => intro k e hk; simp [init] at hk
  | step hs hst ih =>
    obtain ⟨e0, hlog, hnew⟩ := hstep _ _ _ hs hst
    intro k e hk hn
    rw [hlog] at hk ⊢
    rcases (getElem?_snoc _ _ _ _).mp hk with hk | ⟨rfl, rfl⟩
    · obtain ⟨j, hj, e', he', hp⟩ := ih k e hk hn
      exact ⟨j, hj, e', (getElem?_snoc _ _ _ _).mpr (Or.inl he'), hp⟩
    · obtain ⟨e', hm, hp⟩ := hnew hn
      obtain ⟨j, hj⟩ := getElem?_of_mem hm
      exact ⟨j, lt_of_getElem? hj, e', (getElem?_snoc _ _ _ _).mpr (Or.inl hj), hp⟩

theorem enq_after_call (h : Reach M n l0 s) {k : Nat} {id : Id} {r : Rq}
    (hk : s.log[k]? = some (.enq id r)) : ∃ j, j < k ∧ s.log[j]? = some (.call id r) := by
  have := order_template (M := M) (n := n) (l0 := l0) (fun e => ∃ id r, e = .enq id r)
    (fun e e' => ∀ id r, e = .enq id r → e' = .call id r) ?_ h k _ hk ⟨_, _, rfl⟩
  · obtain ⟨j, hj, e', he', hp⟩ := this
    exact ⟨j, hj, by rw [he', hp id r rfl]⟩
  · intro s s' lb hs hst
    have hI := inv_status hs
    cases hst
    case enq c pc r hc hr hcap ha =>
      refine ⟨_, rfl, fun _ => ⟨.call (c, pc) r, ?_, ?_⟩⟩
      · exact ((hI c _ hc).2 r hr).1 (by simp)
      · intro id r h; cases h; rfl
    all_goals exact ⟨_, rfl, fun hn => by obtain ⟨_, _, hn⟩ := hn; cases hn⟩

theorem proc_after_enq (h : Reach M n l0 s) {k : Nat} {id : Id} {r : Rq} {rs : Rs}
    (hk : s.log[k]? = some (.proc id r rs)) : ∃ j, j < k ∧ s.log[j]? = some (.enq id r) := by
  have := order_template (M := M) (n := n) (l0 := l0) (fun e => ∃ id r rs, e = .proc id r rs)
    (fun e e' => ∀ id r rs, e = .proc id r rs → e' = .enq id r) ?_ h k _ hk ⟨_, _, _, rfl⟩
  · obtain ⟨j, hj, e', he', hp⟩ := this
    exact ⟨j, hj, by rw [he', hp id r rs rfl]⟩
  · intro s s' lb hs hst
    have hF := inv_fifo hs
    cases hst
    case proc id r q l' rs ha hq hs' =>
      refine ⟨_, rfl, fun _ => ⟨.enq id r, ?_, ?_⟩⟩
      · apply mem_enqLog.mp; rw [hF, hq]; simp
      · intro id r rs h; cases h; rfl
    all_goals exact ⟨_, rfl, fun hn => by obtain ⟨_, _, _, hn⟩ := hn; cases hn⟩

theorem ret_after_proc (h : Reach M n l0 s) {k : Nat} {id : Id} {rs : Rs}
    (hk : s.log[k]? = some (.ret id rs)) : ∃ j, j < k ∧ ∃ r, s.log[j]? = some (.proc id r rs) := by
  have := order_template (M := M) (n := n) (l0 := l0) (fun e => ∃ id rs, e = .ret id rs)
    (fun e e' => ∀ id rs, e = .ret id rs → ∃ r, e' = .proc id r rs) ?_ h k _ hk ⟨_, _, rfl⟩
  · obtain ⟨j, hj, e', he', hp⟩ := this
    obtain ⟨r, hr⟩ := hp id rs rfl
    exact ⟨j, hj, r, by rw [he', hr]⟩
  · intro s s' lb hs hst
    have hR := inv_replies hs
    cases hst
    case ret c pc rs hc hf =>
      obtain ⟨r, hr⟩ := hR _ _ (mem_of_findReply hf)
      refine ⟨_, rfl, fun _ => ⟨.proc (c, pc) r rs, hr, ?_⟩⟩
      intro id rs h; cases h; exact ⟨r, rfl⟩
    all_goals exact ⟨_, rfl, fun hn => by obtain ⟨_, _, hn⟩ := hn; cases hn⟩

theorem cancelWait_after_enq (h : Reach M n l0 s) {k : Nat} {id : Id}
    (hk : s.log[k]? = some (.cancelWait id)) : ∃ j, j < k ∧ ∃ r, s.log[j]? = some (.enq id r) := by
  have := order_template (M := M) (n := n) (l0 := l0) (fun e => ∃ id, e = .cancelWait id)
    (fun e e' => ∀ id, e = .cancelWait id → ∃ r, e' = .enq id r) ?_ h k _ hk ⟨_, rfl⟩
  · obtain ⟨j, hj, e', he', hp⟩ := this
    obtain ⟨r, hr⟩ := hp id rfl
    exact ⟨j, hj, r, by rw [he', hr]⟩
  · intro s s' lb hs hst
    have hI := inv_status hs
    cases hst
    case cancelWait c pc hc =>
      have h1 := (hI c _ hc).1 (by simp)
      have h2 := ((hI c _ hc).2 _ (List.getElem?_eq_getElem h1)).2 rfl
      refine ⟨_, rfl, fun _ => ⟨_, h2, ?_⟩⟩
      intro id h; cases h; exact ⟨_, rfl⟩
    all_goals exact ⟨_, rfl, fun hn => by obtain ⟨_, hn⟩ := hn; cases hn⟩

theorem call_mem_of_busy (hs : Reach M n l0 s) {c : Nat} {cl : Cl} (hc : s.clients[c]? = some cl)
    (hb : cl.st ≠ .idle) : ∃ r, Event.call (c, cl.pc) r ∈ s.log := by
  have hI := inv_status hs
  have h1 := (hI c _ hc).1 hb
  exact ⟨_, ((hI c _ hc).2 _ (List.getElem?_eq_getElem h1)).1 hb⟩

theorem finish_after_call (h : Reach M n l0 s) {k : Nat} {id : Id} {e : Event Rq Rs}
    (hk : s.log[k]? = some e) (hf : e.finishes id) : ∃ j, j < k ∧ ∃ r, s.log[j]? = some (.call id r) := by
  have := order_template (M := M) (n := n) (l0 := l0) (fun e => ∃ id, e.finishes id)
    (fun e e' => ∀ id, e.finishes id → ∃ r, e' = .call id r) ?_ h k _ hk ⟨_, hf⟩
  · obtain ⟨j, hj, e', he', hp⟩ := this
    obtain ⟨r, hr⟩ := hp id hf
    exact ⟨j, hj, r, by rw [he', hr]⟩
  · intro s s' lb hs hst
    cases hst
    case call => exact ⟨_, rfl, fun hn => by obtain ⟨_, hn⟩ := hn; cases hn⟩
    case enq => exact ⟨_, rfl, fun hn => by obtain ⟨_, hn⟩ := hn; cases hn⟩
    case proc => exact ⟨_, rfl, fun hn => by obtain ⟨_, hn⟩ := hn; cases hn⟩
    case actorPanic => exact ⟨_, rfl, fun hn => by obtain ⟨_, hn⟩ := hn; cases hn⟩
    case ret c pc rs hc hf =>
      obtain ⟨r, hr⟩ := call_mem_of_busy hs hc (by simp)
      exact ⟨_, rfl, fun _ => ⟨_, hr, fun id h => by cases h; exact ⟨_, rfl⟩⟩⟩
    case cancelSend c pc hc =>
      obtain ⟨r, hr⟩ := call_mem_of_busy hs hc (by simp)
      exact ⟨_, rfl, fun _ => ⟨_, hr, fun id h => by cases h; exact ⟨_, rfl⟩⟩⟩
    case cancelWait c pc hc =>
      obtain ⟨r, hr⟩ := call_mem_of_busy hs hc (by simp)
      exact ⟨_, rfl, fun _ => ⟨_, hr, fun id h => by cases h; exact ⟨_, rfl⟩⟩⟩
    case failSend c pc hc ha =>
      obtain ⟨r, hr⟩ := call_mem_of_busy hs hc (by simp)
      exact ⟨_, rfl, fun _ => ⟨_, hr, fun id h => by cases h; exact ⟨_, rfl⟩⟩⟩
    case failWait c pc hc ha hf =>
      obtain ⟨r, hr⟩ := call_mem_of_busy hs hc (by simp)
      exact ⟨_, rfl, fun _ => ⟨_, hr, fun id h => by cases h; exact ⟨_, rfl⟩⟩⟩

/-- template for "no two events of the log are related by `Same`" -/
theorem unique_template (Same : Event Rq Rs → Event Rq Rs → Prop)
    (hstep : ∀ (s s' : State L Rq Rs) (lb : Label), Reach M n l0 s → Step M s lb s' →
      ∃ e, s'.log = s.log ++ [e] ∧ ∀ e' ∈ s.log, ¬ Same e' e ∧ ¬ Same e e')
    (h : Reach M n l0 s) :
    ∀ (i j : Nat) (e1 e2 : Event Rq Rs), s.log[i]? = some e1 → s.log[j]? = some e2 → Same e1 e2 → i = j := by
  induction h with
  | init => intro i j e1 e2 hi; simp [init] at hi
  | step hs hst ih =>
    obtain ⟨e0, hlog, hnew⟩ := hstep _ _ _ hs hst
    intro i j e1 e2 hi hj hsame
    rw [hlog] at hi hj
    rcases (getElem?_snoc _ _ _ _).mp hi with hi' | ⟨hi1, hi2⟩ <;>
      rcases (getElem?_snoc _ _ _ _).mp hj with hj' | ⟨hj1, hj2⟩
    · exact ih i j e1 e2 hi' hj' hsame
    · subst hj2; exact absurd hsame (hnew _ (mem_of_getElem? hi')).1
    · subst hi2; exact absurd hsame (hnew _ (mem_of_getElem? hj')).2
    · rw [hi1, hj1]

theorem call_unique (h : Reach M n l0 s) {i j : Nat} {id : Id} {r r' : Rq}
    (hi : s.log[i]? = some (.call id r)) (hj : s.log[j]? = some (.call id r')) : i = j := by
  refine unique_template (M := M) (n := n) (l0 := l0)
    (fun e1 e2 => ∃ id r r', e1 = .call id r ∧ e2 = .call id r') ?_ h i j _ _ hi hj ⟨_, _, _, rfl, rfl⟩
  intro s s' lb hs hst
  cases hst
  case call c pc r hc hr =>
    refine ⟨_, rfl, fun e' he' => ⟨?_, ?_⟩⟩ <;>
    · rintro ⟨id, r1, r2, h1, h2⟩
      cases h2 <;> cases h1
      have := inv_call hs he' hc
      simp at this
  all_goals exact ⟨_, rfl, fun e' he' => ⟨(by rintro ⟨_, _, _, h1, h2⟩; cases h2), (by rintro ⟨_, _, _, h1, h2⟩; cases h1)⟩⟩

theorem enq_unique (h : Reach M n l0 s) {i j : Nat} {id : Id} {r r' : Rq}
    (hi : s.log[i]? = some (.enq id r)) (hj : s.log[j]? = some (.enq id r')) : i = j := by
  refine unique_template (M := M) (n := n) (l0 := l0)
    (fun e1 e2 => ∃ id r r', e1 = .enq id r ∧ e2 = .enq id r') ?_ h i j _ _ hi hj ⟨_, _, _, rfl, rfl⟩
  intro s s' lb hs hst
  cases hst
  case enq c pc r hc hr hcap ha =>
    refine ⟨_, rfl, fun e' he' => ⟨?_, ?_⟩⟩ <;>
    · rintro ⟨id, r1, r2, h1, h2⟩
      cases h2 <;> cases h1
      have := inv_enq hs he' hc
      simp at this
  all_goals exact ⟨_, rfl, fun e' he' => ⟨(by rintro ⟨_, _, _, h1, h2⟩; cases h2), (by rintro ⟨_, _, _, h1, h2⟩; cases h1)⟩⟩

/-- a queued request has not been processed -/
theorem queue_not_processed (h : Reach M n l0 s) {id : Id} {r r' : Rq} {rs : Rs}
    (hq : (id, r) ∈ s.queue) (hp : Event.proc id r' rs ∈ s.log) : False := by
  have hF := inv_fifo h
  have hN := inv_enq_nodup h
  rw [hF, List.map_append, List.nodup_append] at hN
  refine hN.2.2 id ?_ id ?_ rfl
  · simp only [procReqs, List.map_map, List.mem_map]
    exact ⟨(id, r', rs), mem_procLog.mpr hp, rfl⟩
  · exact List.mem_map.mpr ⟨(id, r), hq, rfl⟩

theorem proc_unique (h : Reach M n l0 s) {i j : Nat} {id : Id} {r r' : Rq} {rs rs' : Rs}
    (hi : s.log[i]? = some (.proc id r rs)) (hj : s.log[j]? = some (.proc id r' rs')) : i = j := by
  refine unique_template (M := M) (n := n) (l0 := l0)
    (fun e1 e2 => ∃ id r r' rs rs', e1 = .proc id r rs ∧ e2 = .proc id r' rs') ?_ h i j _ _ hi hj
    ⟨_, _, _, _, _, rfl, rfl⟩
  intro s s' lb hs hst
  cases hst
  case proc id r q l' rs ha hq hs' =>
    refine ⟨_, rfl, fun e' he' => ⟨?_, ?_⟩⟩ <;>
    · rintro ⟨id, r1, r2, rs1, rs2, h1, h2⟩
      cases h2 <;> cases h1
      exact queue_not_processed hs (by rw [hq]; exact List.mem_cons_self) he'
  all_goals exact ⟨_, rfl, fun e' he' =>
    ⟨(by rintro ⟨_, _, _, _, _, h1, h2⟩; cases h2), (by rintro ⟨_, _, _, _, _, h1, h2⟩; cases h1)⟩⟩

theorem inv_finish (h : Reach M n l0 s) {c i : Nat} {cl : Cl} {e : Event Rq Rs}
    (he : e ∈ s.log) (hf : e.finishes (c, i)) (hc : s.clients[c]? = some cl) : i < cl.pc := by
  have := inv_okFor h e he
  cases e <;> simp only [Event.finishes] at hf <;> subst_vars <;> first | exact this.2 cl hc | exact hf.elim

theorem finish_unique (h : Reach M n l0 s) {i j : Nat} {id : Id} {e1 e2 : Event Rq Rs}
    (hi : s.log[i]? = some e1) (hj : s.log[j]? = some e2) (h1 : e1.finishes id) (h2 : e2.finishes id) :
    i = j := by
  refine unique_template (M := M) (n := n) (l0 := l0)
    (fun e1 e2 => ∃ id, e1.finishes id ∧ e2.finishes id) ?_ h i j _ _ hi hj ⟨_, h1, h2⟩
  intro s s' lb hs hst
  cases hst
  case call => exact ⟨_, rfl, fun e' he' => ⟨(by rintro ⟨_, h1, h2⟩; cases h2), (by rintro ⟨_, h1, h2⟩; cases h1)⟩⟩
  case enq => exact ⟨_, rfl, fun e' he' => ⟨(by rintro ⟨_, h1, h2⟩; cases h2), (by rintro ⟨_, h1, h2⟩; cases h1)⟩⟩
  case proc => exact ⟨_, rfl, fun e' he' => ⟨(by rintro ⟨_, h1, h2⟩; cases h2), (by rintro ⟨_, h1, h2⟩; cases h1)⟩⟩
  case actorPanic => exact ⟨_, rfl, fun e' he' => ⟨(by rintro ⟨_, h1, h2⟩; cases h2), (by rintro ⟨_, h1, h2⟩; cases h1)⟩⟩
  all_goals
    refine ⟨_, rfl, fun e' he' => ⟨?_, ?_⟩⟩ <;>
    · rintro ⟨id, h1, h2⟩
      first
        | (cases h2; have := inv_finish hs he' h1 (by assumption); simp at this)
        | (cases h1; have := inv_finish hs he' h2 (by assumption); simp at this)

theorem finished_step {cls : List Cl} {log : List (Event Rq Rs)} {c : Nat} {cl cl' : Cl} {e0 : Event Rq Rs}
    (ih : ∀ c cl i, cls[c]? = some cl → i < cl.pc → ∃ e ∈ log, e.finishes (c, i))
    (hc : cls[c]? = some cl)
    (hpc : cl'.pc = cl.pc ∨ (cl'.pc = cl.pc + 1 ∧ e0.finishes (c, cl.pc))) :
    ∀ c2 cl2 i, (cls.set c cl')[c2]? = some cl2 → i < cl2.pc → ∃ e ∈ log ++ [e0], e.finishes (c2, i) := by
  intro c2 cl2 i h2 hi
  have old : ∀ {c : Nat} {cl : Cl} {i : Nat}, cls[c]? = some cl → i < cl.pc →
      ∃ e ∈ log ++ [e0], e.finishes (c, i) := by
    intro c cl i hc hi
    obtain ⟨e, he, hf⟩ := ih c cl i hc hi
    exact ⟨e, List.mem_append_left _ he, hf⟩
  rw [List.getElem?_set] at h2
  split at h2
  · rename_i heq
    subst heq
    split at h2
    · cases h2
      rcases hpc with hpc | ⟨hpc, hfin⟩
      · exact old hc (by omega)
      · by_cases hlt : i < cl.pc
        · exact old hc hlt
        · have : i = cl.pc := by omega
          subst this
          exact ⟨e0, by simp, hfin⟩
    · cases h2
  · exact old h2 hi

/-- every request before the client's current index has been finished -/
theorem inv_finished (h : Reach M n l0 s) : ∀ c cl i, s.clients[c]? = some cl → i < cl.pc →
    ∃ e ∈ s.log, e.finishes (c, i) := by
  induction h with
  | init => intro c cl i hc; simp [init] at hc; grind
  | @step s1 s2 lb hs hst ih =>
    cases hst
    case proc | actorPanic =>
      intro c cl i hc hi
      obtain ⟨e, he, hf⟩ := ih c cl i hc hi
      exact ⟨e, List.mem_append_left _ he, hf⟩
    case call c pc r hc hr => exact finished_step ih hc (Or.inl rfl)
    case enq c pc r hc hr hcap ha => exact finished_step ih hc (Or.inl rfl)
    case ret c pc rs hc hf => exact finished_step ih hc (Or.inr ⟨rfl, rfl⟩)
    case cancelSend c pc hc => exact finished_step ih hc (Or.inr ⟨rfl, rfl⟩)
    case cancelWait c pc hc => exact finished_step ih hc (Or.inr ⟨rfl, rfl⟩)
    case failSend c pc hc ha => exact finished_step ih hc (Or.inr ⟨rfl, rfl⟩)
    case failWait c pc hc ha hf => exact finished_step ih hc (Or.inr ⟨rfl, rfl⟩)

/-- program order, log form: when request `i2` of a client is called, all its earlier requests are finished -/
theorem call_after_finish (h : Reach M n l0 s) {j c i i2 : Nat} {r : Rq}
    (hj : s.log[j]? = some (.call (c, i2) r)) (hi : i < i2) :
    ∃ k, k < j ∧ ∃ e, s.log[k]? = some e ∧ e.finishes (c, i) := by
  have := order_template (M := M) (n := n) (l0 := l0) (fun e => ∃ i2 r, e = .call (c, i2) r ∧ i < i2)
    (fun _ e' => e'.finishes (c, i)) ?_ h j _ hj ⟨_, _, rfl, hi⟩
  · obtain ⟨k, hk, e', he', hp⟩ := this
    exact ⟨k, hk, e', he', hp⟩
  · intro s s' lb hs hst
    cases hst
    case call c' pc r hc hr =>
      refine ⟨_, rfl, ?_⟩
      rintro ⟨i2, r', heq, hlt⟩
      cases heq
      exact inv_finished hs _ _ _ hc hlt
    all_goals exact ⟨_, rfl, fun hn => by obtain ⟨_, _, hn, _⟩ := hn; cases hn⟩

/-! ### the dead actor -/

theorem inv_dead (h : Reach M n l0 s) :
    (s.alive = false → ∃ id r, Event.panic id r ∈ s.log) ∧
    (∀ id r, Event.panic id r ∈ s.log → s.alive = false) ∧
    (∀ id, Event.fail id ∈ s.log → s.alive = false) := by
  induction h with
  | init => simp [init]
  | step hs hst ih =>
    obtain ⟨ih1, ih2, ih3⟩ := ih
    cases hst <;> simp_all
    all_goals grind

/-- template: every event of kind `A` comes before every event of kind `B` -/
theorem before_template (A B : Event Rq Rs → Prop)
    (hstep : ∀ (s s' : State L Rq Rs) (lb : Label), Reach M n l0 s → Step M s lb s' →
      ∃ e, s'.log = s.log ++ [e] ∧ (A e → ∀ e' ∈ s.log, ¬ B e') ∧ ¬ (A e ∧ B e))
    (h : Reach M n l0 s) :
    ∀ (i j : Nat) (e1 e2 : Event Rq Rs), s.log[i]? = some e1 → s.log[j]? = some e2 → A e1 → B e2 → i < j := by
  induction h with
  | init => intro i j e1 e2 hi; simp [init] at hi
  | step hs hst ih =>
    obtain ⟨e0, hlog, hnew, hnot⟩ := hstep _ _ _ hs hst
    intro i j e1 e2 hi hj hA hB
    rw [hlog] at hi hj
    rcases (getElem?_snoc _ _ _ _).mp hi with hi' | ⟨hi1, hi2⟩ <;>
      rcases (getElem?_snoc _ _ _ _).mp hj with hj' | ⟨hj1, hj2⟩
    · exact ih i j e1 e2 hi' hj' hA hB
    · rw [hj1]; exact lt_of_getElem? hi'
    · subst hi2; exact absurd hB (hnew hA _ (mem_of_getElem? hj'))
    · subst hi2 hj2; exact absurd ⟨hA, hB⟩ hnot

theorem proc_before_panic (h : Reach M n l0 s) {i j : Nat} {id id' : Id} {r r' : Rq} {rs : Rs}
    (hi : s.log[i]? = some (.proc id r rs)) (hj : s.log[j]? = some (.panic id' r')) : i < j := by
  refine before_template (M := M) (n := n) (l0 := l0) (fun e => ∃ id r rs, e = .proc id r rs)
    (fun e => ∃ id r, e = .panic id r) ?_ h i j _ _ hi hj ⟨_, _, _, rfl⟩ ⟨_, _, rfl⟩
  intro s s' lb hs hst
  have hD := inv_dead hs
  cases hst
  case proc id r q l' rs ha hq hs' =>
    refine ⟨_, rfl, fun _ e' he' => ?_, ?_⟩
    · rintro ⟨id, r, rfl⟩
      have := hD.2.1 _ _ he'
      simp [ha] at this
    · rintro ⟨_, ⟨_, _, h2⟩⟩; cases h2
  all_goals exact ⟨_, rfl, fun hA => (by obtain ⟨_, _, _, hA⟩ := hA; cases hA), fun hAB => (by obtain ⟨⟨_, _, _, hA⟩, _⟩ := hAB; cases hA)⟩

theorem fail_after_panic (h : Reach M n l0 s) {k : Nat} {id : Id}
    (hk : s.log[k]? = some (.fail id)) : ∃ j, j < k ∧ ∃ id' r, s.log[j]? = some (.panic id' r) := by
  have := order_template (M := M) (n := n) (l0 := l0) (fun e => ∃ id, e = .fail id)
    (fun _ e' => ∃ id' r, e' = .panic id' r) ?_ h k _ hk ⟨_, rfl⟩
  · obtain ⟨j, hj, e', he', id', r, hp⟩ := this
    exact ⟨j, hj, id', r, by rw [he', hp]⟩
  · intro s s' lb hs hst
    have hD := inv_dead hs
    cases hst
    case failSend c pc hc ha =>
      obtain ⟨id', r, hm⟩ := hD.1 ha
      exact ⟨_, rfl, fun _ => ⟨_, hm, _, _, rfl⟩⟩
    case failWait c pc hc ha hf =>
      obtain ⟨id', r, hm⟩ := hD.1 ha
      exact ⟨_, rfl, fun _ => ⟨_, hm, _, _, rfl⟩⟩
    all_goals exact ⟨_, rfl, fun hn => by obtain ⟨_, hn⟩ := hn; cases hn⟩


/-! ### positions in the log vs positions in its projections -/

theorem getElem?_enqLog_of_mem {l : List (Event Rq Rs)} {id : Id} {r : Rq} (h : Event.enq id r ∈ l) :
    ∃ k : Nat, (enqLog l)[k]? = some (id, r) := getElem?_of_mem (mem_enqLog.mpr h)

/-- two `enq` events in log order appear in the same order in `enqLog` -/
theorem enqLog_order {l : List (Event Rq Rs)} {i j : Nat} {a b : Id} {ra rb : Rq}
    (hi : l[i]? = some (.enq a ra)) (hj : l[j]? = some (.enq b rb)) (hij : i < j) :
    ∃ i' j' : Nat, i' < j' ∧ (enqLog l)[i']? = some (a, ra) ∧ (enqLog l)[j']? = some (b, rb) := by
  induction l generalizing i j with
  | nil => simp at hi
  | cons x xs ih =>
    cases j with
    | zero => omega
    | succ j0 =>
      simp only [List.getElem?_cons_succ] at hj
      cases i with
      | zero =>
        simp only [List.getElem?_cons_zero, Option.some.injEq] at hi
        subst hi
        obtain ⟨k, hk⟩ := getElem?_enqLog_of_mem (mem_of_getElem? hj)
        exact ⟨0, k + 1, by omega, by simp [enqLog], by simp [enqLog, hk]⟩
      | succ i0 =>
        simp only [List.getElem?_cons_succ] at hi
        obtain ⟨i', j', h1, h2, h3⟩ := ih hi hj (by omega)
        cases x
        case enq id r => exact ⟨i' + 1, j' + 1, by omega, by simp [enqLog, h2], by simp [enqLog, h3]⟩
        all_goals exact ⟨i', j', h1, by simp [enqLog, h2], by simp [enqLog, h3]⟩

/-- two entries of `procLog` in order come from two `proc` events in the same order -/
theorem procLog_order {l : List (Event Rq Rs)} {p' q' : Nat} {x y : Id × Rq × Rs}
    (hp : (procLog l)[p']? = some x) (hq : (procLog l)[q']? = some y) (hpq : p' < q') :
    ∃ p q : Nat, p < q ∧ l[p]? = some (.proc x.1 x.2.1 x.2.2) ∧ l[q]? = some (.proc y.1 y.2.1 y.2.2) := by
  induction l generalizing p' q' with
  | nil => simp [procLog] at hp
  | cons e es ih =>
    cases e
    case proc id r rs =>
      simp only [procLog] at hp hq
      cases q' with
      | zero => omega
      | succ q0 =>
        simp only [List.getElem?_cons_succ] at hq
        cases p' with
        | zero =>
          simp only [List.getElem?_cons_zero, Option.some.injEq] at hp
          subst hp
          obtain ⟨k, hk⟩ := getElem?_of_mem (mem_procLog.mp (mem_of_getElem? hq))
          exact ⟨0, k + 1, by omega, by simp, by simp [hk]⟩
        | succ p0 =>
          simp only [List.getElem?_cons_succ] at hp
          obtain ⟨p, q, h1, h2, h3⟩ := ih hp hq (by omega)
          exact ⟨p + 1, q + 1, by omega, by simp [h2], by simp [h3]⟩
    all_goals
      simp only [procLog] at hp hq
      obtain ⟨p, q, h1, h2, h3⟩ := ih hp hq hpq
      exact ⟨p + 1, q + 1, by omega, by simp [h2], by simp [h3]⟩

theorem nodup_map_getElem?_inj {α β : Type} {f : α → β} {l : List α} (hn : (l.map f).Nodup) {i j : Nat} {x y : α}
    (hi : l[i]? = some x) (hj : l[j]? = some y) (hxy : f x = f y) : i = j := by
  have h1 : (l.map f)[i]? = (l.map f)[j]? := by simp [hi, hj, hxy]
  exact (List.getElem?_inj (by simpa using lt_of_getElem? hi) hn).mp h1

/-- **FIFO, positional form**: requests are processed in the order they were enqueued -/
theorem fifo_pos (h : Reach M n l0 s) {i j q : Nat} {a b : Id} {ra rb rb' : Rq} {rsb : Rs}
    (hi : s.log[i]? = some (.enq a ra)) (hj : s.log[j]? = some (.enq b rb)) (hij : i < j)
    (hq : s.log[q]? = some (.proc b rb' rsb)) :
    ∃ p, p < q ∧ ∃ rsa, s.log[p]? = some (.proc a ra rsa) := by
  obtain ⟨i', j', hij', hi', hj'⟩ := enqLog_order hi hj hij
  have hF := inv_fifo h
  have hN := inv_enq_nodup h
  -- position of `b` in the proc log
  obtain ⟨q', hq'⟩ := getElem?_of_mem (mem_procLog.mpr (mem_of_getElem? hq))
  have hq'len : q' < (procReqs s.log).length := by simpa [procReqs] using lt_of_getElem? hq'
  have hq'' : (enqLog s.log)[q']? = some (b, rb') := by
    rw [hF, List.getElem?_append_left hq'len]; simp [procReqs, hq']
  have hjq : j' = q' := nodup_map_getElem?_inj hN hj' hq'' rfl
  subst hjq
  have hi'' : (procReqs s.log)[i']? = some (a, ra) := by
    rw [hF, List.getElem?_append_left (by omega)] at hi'; exact hi'
  simp only [procReqs, List.getElem?_map, Option.map_eq_some_iff] at hi''
  obtain ⟨x, hx, hxa⟩ := hi''
  obtain ⟨p, q2, hpq, hp, hq2⟩ := procLog_order hx hq' hij'
  have : q2 = q := proc_unique h hq2 hq
  subst this
  cases hxa
  exact ⟨p, hpq, _, hp⟩

/-- a request cancelled before it entered the queue is never enqueued -/
theorem no_enq_of_cancelSend (h : Reach M n l0 s) {id : Id} {r : Rq}
    (hc : Event.cancelSend id ∈ s.log) (he : Event.enq id r ∈ s.log) : False := by
  induction h with
  | init => simp [init] at hc
  | step hs hst ih =>
    cases hst <;> simp only [List.mem_append, List.mem_singleton, reduceCtorEq, or_false] at hc he
    case enq c pc r' hcl hr hcap ha =>
      rcases he with he | he
      · exact ih hc he
      · cases he
        have := inv_finish hs hc rfl hcl
        simp at this
    case cancelSend c pc hcl =>
      rcases hc with hc | hc
      · exact ih hc he
      · cases hc
        have := inv_enq hs he hcl
        simp at this
    all_goals exact ih hc he

/-- **real-time precedence**: a request that finished before another one was called is processed first -/
theorem realtime_order (h : Reach M n l0 s) {i j p q : Nat} {e1 : Event Rq Rs} {id1 id2 : Id}
    {r1 r2 r2' : Rq} {o1 o2 : Rs}
    (hi : s.log[i]? = some e1) (hf : e1.finishes id1) (hj : s.log[j]? = some (.call id2 r2)) (hij : i < j)
    (hp : s.log[p]? = some (.proc id1 r1 o1)) (hq : s.log[q]? = some (.proc id2 r2' o2)) : p < q := by
  obtain ⟨e2, he2q, he2⟩ := proc_after_enq h hq
  obtain ⟨j', hj'e2, hj'⟩ := enq_after_call h he2
  have : j' = j := call_unique h hj' hj
  subst this
  cases e1 <;> simp only [Event.finishes] at hf
  case ret id rs =>
    subst hf
    obtain ⟨p', hp'i, r, hp'⟩ := ret_after_proc h hi
    have : p' = p := proc_unique h hp' hp
    omega
  case cancelSend id =>
    subst hf
    obtain ⟨e1, _, he1⟩ := proc_after_enq h hp
    exact (no_enq_of_cancelSend h (mem_of_getElem? hi) (mem_of_getElem? he1)).elim
  case cancelWait id =>
    subst hf
    obtain ⟨e1, he1i, r, he1⟩ := cancelWait_after_enq h hi
    obtain ⟨p', hp'q, rsa, hp'⟩ := fifo_pos h he1 he2 (by omega) hq
    have : p' = p := proc_unique h hp' hp
    omega
  case fail id =>
    subst hf
    obtain ⟨m, hmi, id', r, hm⟩ := fail_after_panic h hi
    have := proc_before_panic h hq hm
    omega

/-- **program order**: a client's requests are processed in the order of its program -/
theorem program_order (h : Reach M n l0 s) {c i1 i2 p q : Nat} {r1 r2 : Rq} {o1 o2 : Rs}
    (hp : s.log[p]? = some (.proc (c, i1) r1 o1)) (hq : s.log[q]? = some (.proc (c, i2) r2 o2))
    (hlt : i1 < i2) : p < q := by
  obtain ⟨e2, he2q, he2⟩ := proc_after_enq h hq
  obtain ⟨j, hje2, hj⟩ := enq_after_call h he2
  obtain ⟨k, hkj, e, hk, hfin⟩ := call_after_finish h hj hlt
  exact realtime_order h hk hfin hj hkj hp hq

theorem seqRun_snoc (lim : Limiter L Rq Rs) (l : L) (rs : List Rq) (r : Rq) :
    seqRun lim l (rs ++ [r]) =
      match seqRun lim l rs with
      | none => none
      | some (l', os) =>
        match lim.step l' r with
        | none => none
        | some (l'', o) => some (l'', os ++ [o]) := by
  induction rs generalizing l with
  | nil =>
    simp only [List.nil_append, seqRun]
    cases lim.step l r with
    | none => rfl
    | some p => rfl
  | cons x xs ih =>
    simp only [List.cons_append, seqRun]
    cases lim.step l x with
    | none => rfl
    | some p =>
      obtain ⟨l1, o1⟩ := p
      simp only
      rw [ih]
      cases seqRun lim l1 xs with
      | none => rfl
      | some q =>
        obtain ⟨l2, os⟩ := q
        simp only
        cases lim.step l2 r with
        | none => rfl
        | some w => rfl

/-- the limiter state and every computed response are those of the sequential execution of the `proc` log -/
theorem inv_sequential (h : Reach M n l0 s) :
    seqRun M.lim l0 ((procLog s.log).map (·.2.1)) = some (s.lim, (procLog s.log).map (·.2.2)) := by
  induction h with
  | init => simp [init, procLog, seqRun]
  | step hs hst ih =>
    cases hst
    case proc id r q l' rs ha hq hs' =>
      simp only [procLog_snoc, List.map_append, List.map_cons, List.map_nil]
      rw [seqRun_snoc, ih]
      simp only [hs']
    all_goals simpa using ih

theorem procLog_ids_nodup (h : Reach M n l0 s) : ((procLog s.log).map (·.1)).Nodup := by
  have hF := inv_fifo h
  have hN := inv_enq_nodup h
  rw [hF, List.map_append] at hN
  have := (List.nodup_append.mp hN).1
  rw [procReqs, List.map_map] at this
  exact this

/-- order in the log of two `proc` events = order of their entries in `procLog` -/
theorem procLog_lt_of_log_lt {l : List (Event Rq Rs)} {a b : Nat} {x y : Id × Rq × Rs}
    (ha : (procLog l)[a]? = some x) (hb : (procLog l)[b]? = some y)
    (hord : ∀ p q : Nat, l[p]? = some (.proc x.1 x.2.1 x.2.2) → l[q]? = some (.proc y.1 y.2.1 y.2.2) → p < q) :
    a < b := by
  rcases Nat.lt_trichotomy a b with hlt | heq | hgt
  · exact hlt
  · subst heq
    rw [ha] at hb
    cases hb
    obtain ⟨p, hp⟩ := getElem?_of_mem (mem_procLog.mp (mem_of_getElem? ha))
    have := hord p p hp hp
    omega
  · obtain ⟨q, p, hqp, hq, hp⟩ := procLog_order hb ha hgt
    have := hord p q hp hq
    omega

end TcVerif.Actor
