/-
  The retry loop over an ARBITRARY store implementation (C08): whatever the store answers
  (any i64 values, any failures of the conditional writes), the call ends within
  `MAX_RETRIES` passes with either a well-formed result or the documented internal error.
-/
import TcVerif.Lemmas.TotalArith
namespace TcVerif

/-- a result as C08 describes it -/
def Outcome.wellFormed (r : Req) (o : Outcome) : Prop :=
  o.isOk = true ∧ o.limit = r.burst ∧ 0 ≤ o.remaining ∧ o.remaining ≤ o.limit ∧
  0 ≤ o.resetNs ∧ o.resetNs ≤ I64_MAX ∧ 0 ≤ o.retryNs ∧ o.retryNs ≤ I64_MAX ∧
  (o.retryNs = 0 ↔ o.allowed = true)

instance (r : Req) (o : Outcome) : Decidable (Outcome.wellFormed r o) := by
  unfold Outcome.wellFormed; exact inferInstance

theorem decision_wellFormed {E : Int} {r : Req} {tv : Option Int} (h : ReqT E r tv) :
    Outcome.wellFormed r (decision E r tv).outcome := by
  rw [decision_eq]
  have h1 := remaining_range h
  have h2 := reset_range E r tv
  have h3 := retry_range E r tv
  exact ⟨rfl, rfl, h1.1, h1.2, h2.1, h2.2, h3.1, h3.2, retry_zero_iff h⟩

theorem rlLoop_outcome {σ : Type} (S : StoreOps σ) (E : Int) (r : Req)
    (hS : ∀ s, ReqT E r (S.get s r.key r.now)) (fuel : Nat) (s : σ) (tr : List StoreOp) :
    (rlLoop S fuel s E r tr).2.1 = .errInternal ∨ Outcome.wellFormed r (rlLoop S fuel s E r tr).2.1 := by
  induction fuel generalizing s tr with
  | zero => left; rfl
  | succ n ih =>
    simp only [rlLoop]
    have hwf := decision_wellFormed (hS s)
    split
    · cases hg : S.get s r.key r.now with
      | some old =>
        rw [hg] at hwf
        simp only
        split
        · right; exact hwf
        · exact ih _ _
      | none =>
        rw [hg] at hwf
        simp only
        split
        · right; exact hwf
        · exact ih _ _
    · right; exact hwf

/-- a store whose conditional writes always fail (used to show that the internal error is
    reachable with a misbehaving store, i.e. the disjunction of `C08_any_store` is not vacuous) -/
def refusingStore : StoreOps Unit where
  get _ _ _ := none
  cas s _ _ _ _ _ := (s, false)
  setnx s _ _ _ _ := (s, false)

end TcVerif
