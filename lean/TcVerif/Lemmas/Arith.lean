/-
  Arithmetic of `decision` on the normal domain D: no saturation happens, every field has
  its ideal (unbounded-integer) value.
-/
import TcVerif.Model.Gcra
namespace TcVerif

def TWO60 : Int := 1152921504606846976
def TWO61 : Int := 2305843009213693952
def TWO62 : Int := 4611686018427387904
/-- 2100-01-01T00:00:00Z in nanoseconds -/
def T_MAX : Int := 4102444800000000000
/-- bound on any stored TAT on D: `T_MAX + 2^60` -/
def V_MAX : Int := 5255366304606846976

/-- unfold the numeric constants everywhere, then `omega` -/
macro "bnd" : tactic =>
  `(tactic| ((try simp only [I64_MIN, I64_MAX, TWO60, TWO61, TWO62, T_MAX, V_MAX] at *); first | done | omega))

theorem clamp_id {x : Int} (h1 : I64_MIN ≤ x) (h2 : x ≤ I64_MAX) : clampI64 x = x := by
  unfold clampI64 I64_MAX I64_MIN at *
  split
  · omega
  · split
    · omega
    · rfl

theorem clamp_hi {x : Int} (h : x > I64_MAX) : clampI64 x = I64_MAX := by
  unfold clampI64; simp [h]

theorem clamp_range (x : Int) : I64_MIN ≤ clampI64 x ∧ clampI64 x ≤ I64_MAX := by
  unfold clampI64 I64_MAX I64_MIN
  split
  · omega
  · split <;> omega

theorem clamp_ge_of_ge {x y : Int} (hy : y ≤ I64_MAX) (h : y ≤ x) : y ≤ clampI64 x := by
  unfold clampI64 I64_MAX I64_MIN at *
  split
  · omega
  · split <;> omega

theorem clamp_le_of_le {x y : Int} (hy : I64_MIN ≤ y) (h : x ≤ y) : clampI64 x ≤ y := by
  unfold clampI64 I64_MAX I64_MIN at *
  split
  · omega
  · split <;> omega

/-- the normal domain D for one key's limits: burst ≥ 1, emission interval ≥ 1 ns,
    burst × interval ≤ 2^60 ns -/
structure DomD (E B : Int) : Prop where
  hE : 1 ≤ E
  hB : 1 ≤ B
  hBE : B * E ≤ TWO60

/-- the effective TAT: a stale or absent stored value counts as `now - E` -/
def gTat (E now : Int) (tv : Option Int) : Int := effTat (now - E) tv

def Outcome.limit : Outcome → Int | .ok _ l _ _ _ => l | _ => 0
def Outcome.remaining : Outcome → Int | .ok _ _ r _ _ => r | _ => 0
def Outcome.resetNs : Outcome → Int | .ok _ _ _ r _ => r | _ => 0
def Outcome.retryNs : Outcome → Int | .ok _ _ _ _ r => r | _ => 0
def Outcome.isOk : Outcome → Bool | .ok .. => true | _ => false

theorem DomD.tau_eq {E B : Int} (_h : DomD E B) : E * (B - 1) = B * E - E := by
  rw [Int.mul_sub, Int.mul_one, Int.mul_comm]

theorem DomD.E_le {E B : Int} (h : DomD E B) : E ≤ B * E := by
  have h1 := h.hE; have h2 := h.hB
  have : 1 * E ≤ B * E := Int.mul_le_mul_of_nonneg_right h2 (by omega)
  omega

theorem eNs_D {E B : Int} (h : DomD E B) : eNs E = E := by
  have := h.E_le; have := h.hBE
  unfold eNs I64_MAX TWO60 at *
  split <;> omega

theorem tauNs_D {E B : Int} (h : DomD E B) : tauNs E B = B * E - E := by
  have h1 := h.E_le; have h2 := h.hBE; have h3 := h.hE
  unfold tauNs satMul
  rw [eNs_D h, h.tau_eq]
  apply clamp_id <;> bnd

end TcVerif

namespace TcVerif

/-- hypotheses under which one `rate_limit` call is inside the normal domain -/
structure ReqD (E B : Int) (r : Req) (tv : Option Int) : Prop where
  dom : DomD E B
  burst : r.burst = B
  qty : 0 ≤ r.qty
  now0 : 0 ≤ r.now
  now1 : r.now ≤ T_MAX
  stored : ∀ v, tv = some v → -TWO62 ≤ v ∧ v ≤ V_MAX

theorem satMul_cases (E q : Int) (hE : 0 ≤ E) (hq : 0 ≤ q) :
    (satMul E q = E * q ∧ E * q ≤ I64_MAX) ∨ (satMul E q = I64_MAX ∧ E * q > I64_MAX) := by
  have hp : 0 ≤ E * q := Int.mul_nonneg hE hq
  unfold satMul
  by_cases h : E * q > I64_MAX
  · right; exact ⟨clamp_hi h, h⟩
  · left; exact ⟨clamp_id (by bnd) (by omega), by omega⟩

/-- **the decision on D, in ideal arithmetic** -/
theorem decision_D {E B : Int} {r : Req} {tv : Option Int} (h : ReqD E B r tv)
    (τ tat p : Int) (hτ : τ = B * E - E) (htat : tat = gTat E r.now tv) (hp : p = E * r.qty) :
    let d := decision E r tv
    d.tat = tat ∧
    (d.allowed = true ↔ tat + p ≤ r.now + τ) ∧
    (p ≤ TWO61 → d.newTat = tat + p) ∧
    (p ≤ TWO61 → d.ttl = tat + p - r.now + max τ E) ∧
    d.write = (d.allowed && decide (r.qty > 0)) ∧
    d.outcome.isOk = true ∧
    d.outcome.allowed = d.allowed ∧
    d.outcome.limit = B ∧
    d.outcome.remaining = max (Int.tdiv (r.now + τ - (if d.allowed then tat + p else tat)) E) 0 ∧
    d.outcome.resetNs = max ((if d.allowed then tat + p else tat) - r.now + max τ E) 0 ∧
    (d.allowed = true → d.outcome.retryNs = 0) ∧
    (d.allowed = false → p ≤ TWO61 → d.outcome.retryNs = tat + p - τ - r.now) ∧
    (d.allowed = false → 0 < d.outcome.retryNs) := by
  obtain ⟨hD, hb, hq, hn0, hn1, hst⟩ := h
  have hE := hD.hE; have hB := hD.hB; have hBE := hD.hBE; have hEle := hD.E_le
  have he : eNs E = E := eNs_D hD
  have ht : tauNs E r.burst = τ := by rw [hb, hτ]; exact tauNs_D hD
  have htat_lo : r.now - E ≤ tat := by
    rw [htat]; unfold gTat effTat; cases tv <;> simp <;> omega
  have htat_hi : tat ≤ V_MAX := by
    rw [htat]; unfold gTat effTat
    cases htv : tv with
    | none => simp; bnd
    | some v => have := (hst v htv).2; simp; bnd
  have hminTat : satSub r.now E = r.now - E := by
    unfold satSub; apply clamp_id <;> bnd
  have hp0 : 0 ≤ p := by rw [hp]; exact Int.mul_nonneg (by omega) hq
  have hburst : satAdd r.now τ = r.now + τ := by
    unfold satAdd; apply clamp_id <;> bnd
  have hpad : max τ E ≤ TWO60 := by bnd
  have hpad0 : 0 ≤ max τ E := by bnd
  intro d
  have hd : d = decision E r tv := rfl
  clear_value d
  simp only [decision, he, ht, hminTat, hburst] at hd
  rw [← gTat, ← htat] at hd
  have hEpos : E > 0 := by omega
  simp only [hEpos, if_true] at hd
  by_cases hsmall : p ≤ TWO61
  · -- the product does not saturate and everything is exact
    have hinc : satMul E r.qty = p := by
      rw [hp]; unfold satMul; apply clamp_id <;> bnd
    rw [hinc] at hd
    have hnew : satAdd tat p = tat + p := by
      unfold satAdd; apply clamp_id <;> bnd
    have hallow : satSub (tat + p) τ = tat + p - τ := by
      unfold satSub; apply clamp_id <;> bnd
    have h1 : satSub (tat + p) r.now = tat + p - r.now := by
      unfold satSub; apply clamp_id <;> bnd
    have h2 : satAdd (tat + p - r.now) (max τ E) = tat + p - r.now + max τ E := by
      unfold satAdd; apply clamp_id <;> bnd
    rw [hnew, hallow, h1, h2] at hd
    by_cases ha : r.now ≥ tat + p - τ
    · have h3 : satSub (r.now + τ) (tat + p) = r.now + τ - (tat + p) := by
        unfold satSub; apply clamp_id <;> bnd
      simp only [ha, decide_true, if_true, h1, h2, h3, Bool.true_and] at hd
      subst hd
      simp only [Outcome.isOk, Outcome.allowed, Outcome.limit, Outcome.remaining, Outcome.resetNs,
        Outcome.retryNs, if_true, Bool.true_and]
      refine ⟨trivial, ⟨fun _ => by omega, fun _ => trivial⟩, fun _ => trivial, fun _ => by bnd, trivial, trivial,
        trivial, hb, trivial, by bnd, fun _ => trivial, fun h => by simp at h, fun h => by simp at h⟩
    · have h3 : satSub (r.now + τ) tat = r.now + τ - tat := by
        unfold satSub; apply clamp_id <;> bnd
      have h4 : satSub tat r.now = tat - r.now := by
        unfold satSub; apply clamp_id <;> bnd
      have h5 : satAdd (tat - r.now) (max τ E) = tat - r.now + max τ E := by
        unfold satAdd; apply clamp_id <;> bnd
      have h6 : satSub (tat + p - τ) r.now = tat + p - τ - r.now := by
        unfold satSub; apply clamp_id <;> bnd
      simp only [ha, decide_false, if_false, h3, h4, h5, h6, Bool.false_and, Bool.false_eq_true] at hd
      subst hd
      simp only [Outcome.isOk, Outcome.allowed, Outcome.limit, Outcome.remaining, Outcome.resetNs,
        Outcome.retryNs, Bool.false_eq_true, if_false, Bool.false_and]
      refine ⟨trivial, ⟨fun h => by simp at h, fun h => by omega⟩, fun _ => trivial, fun _ => by bnd, trivial, trivial,
        trivial, hb, trivial, trivial, fun h => by simp at h, fun _ _ => by bnd, fun _ => by bnd⟩
  · -- huge quantity: the (possibly saturated) increment is far beyond any budget
    have hincge : satMul E r.qty > TWO61 := by
      rcases satMul_cases E r.qty (by omega) hq with ⟨hinc, _⟩ | ⟨hinc, _⟩
      · rw [hinc, ← hp]; omega
      · rw [hinc]; bnd
    have hincle := (clamp_range (E * r.qty)).2
    have hnewge : satAdd tat (satMul E r.qty) ≥ r.now - E + TWO61 := by
      unfold satAdd; apply clamp_ge_of_ge <;> bnd
    have hnewle := (clamp_range (tat + satMul E r.qty)).2
    have hallow : satSub (satAdd tat (satMul E r.qty)) τ > r.now := by
      unfold satSub
      have : r.now + 1 ≤ clampI64 (satAdd tat (satMul E r.qty) - τ) := by
        apply clamp_ge_of_ge <;> bnd
      omega
    have ha : ¬ r.now ≥ satSub (satAdd tat (satMul E r.qty)) τ := by omega
    have h3 : satSub (r.now + τ) tat = r.now + τ - tat := by
      unfold satSub; apply clamp_id <;> bnd
    have h4 : satSub tat r.now = tat - r.now := by
      unfold satSub; apply clamp_id <;> bnd
    have h5 : satAdd (tat - r.now) (max τ E) = tat - r.now + max τ E := by
      unfold satAdd; apply clamp_id <;> bnd
    have hretry : satSub (satSub (satAdd tat (satMul E r.qty)) τ) r.now ≥ 1 := by
      have hr := (clamp_range (satAdd tat (satMul E r.qty) - τ)).2
      unfold satSub at hallow hr ⊢
      apply clamp_ge_of_ge <;> bnd
    simp only [ha, decide_false, if_false, h3, h4, h5, Bool.false_and, Bool.false_eq_true] at hd
    subst hd
    simp only [Outcome.isOk, Outcome.allowed, Outcome.limit, Outcome.remaining, Outcome.resetNs,
      Outcome.retryNs, Bool.false_eq_true, if_false, Bool.false_and]
    refine ⟨trivial, ⟨fun h => by simp at h, fun h => by bnd⟩, fun h => by omega, fun h => by omega, trivial, trivial,
      trivial, hb, trivial, trivial, fun h => by simp at h, fun _ h => by omega, fun _ => by omega⟩

end TcVerif
