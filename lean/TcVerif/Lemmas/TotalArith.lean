/-
  Arithmetic of `decision` on the WHOLE input domain (C08): every i64 burst / quantity,
  every emission interval `0 ≤ E < 2^64` (including 0 and values above `i64::MAX`),
  every timestamp between 1970 and 2200, every stored i64 value.  Saturation does happen
  here; the lemmas give ranges and the order facts that survive it.
-/
import TcVerif.Lemmas.Arith
namespace TcVerif

/-- 2200-01-01T00:00:00Z in nanoseconds since the epoch -/
def T2200 : Int := 7258118400000000000

/-- unfold the numeric constants (including `T2200`) everywhere, then `omega` -/
macro "bndT" : tactic =>
  `(tactic| ((try simp only [I64_MIN, I64_MAX, T2200, inI64] at *); first | done | omega))

/-! ### the intermediate values of `decision`, one definition per `let` -/

def dMinTat (E : Int) (r : Req) : Int := satSub r.now (eNs E)
def dTat (E : Int) (r : Req) (tv : Option Int) : Int := effTat (dMinTat E r) tv
def dInc (E : Int) (r : Req) : Int := satMul (eNs E) r.qty
def dNew (E : Int) (r : Req) (tv : Option Int) : Int := satAdd (dTat E r tv) (dInc E r)
def dAllowAt (E : Int) (r : Req) (tv : Option Int) : Int := satSub (dNew E r tv) (tauNs E r.burst)
def dAllowed (E : Int) (r : Req) (tv : Option Int) : Bool := decide (r.now ≥ dAllowAt E r tv)
def dPad (E : Int) (r : Req) : Int := max (tauNs E r.burst) (eNs E)
def dTtl (E : Int) (r : Req) (tv : Option Int) : Int :=
  max (satAdd (satSub (dNew E r tv) r.now) (dPad E r)) 0
def dCur (E : Int) (r : Req) (tv : Option Int) : Int :=
  if dAllowed E r tv then dNew E r tv else dTat E r tv
def dRoom (E : Int) (r : Req) (tv : Option Int) : Int :=
  satSub (satAdd r.now (tauNs E r.burst)) (dCur E r tv)
def dRemaining (E : Int) (r : Req) (tv : Option Int) : Int :=
  if eNs E > 0 then max (Int.tdiv (dRoom E r tv) (eNs E)) 0 else 0
def dReset (E : Int) (r : Req) (tv : Option Int) : Int :=
  max (satAdd (satSub (dCur E r tv) r.now) (dPad E r)) 0
def dRetry (E : Int) (r : Req) (tv : Option Int) : Int :=
  if dAllowed E r tv then 0 else max (satSub (dAllowAt E r tv) r.now) 0

/-- `decision`, field by field, in terms of the named intermediate values -/
theorem decision_eq (E : Int) (r : Req) (tv : Option Int) :
    decision E r tv =
      { allowed := dAllowed E r tv,
        write := dAllowed E r tv && decide (r.qty > 0),
        tat := dTat E r tv,
        newTat := dNew E r tv,
        ttl := dTtl E r tv,
        outcome := .ok (dAllowed E r tv) r.burst (dRemaining E r tv) (dReset E r tv) (dRetry E r tv) } := rfl

/-! ### ranges -/

theorem eNs_range {E : Int} (h0 : 0 ≤ E) : 0 ≤ eNs E ∧ eNs E ≤ I64_MAX := by
  unfold eNs I64_MAX; split <;> omega

/-- the i64 input hypotheses of one call -/
structure ReqT (E : Int) (r : Req) (tv : Option Int) : Prop where
  hE : 0 ≤ E
  now0 : 0 ≤ r.now
  now1 : r.now ≤ T2200
  burst0 : 0 < r.burst
  qty0 : 0 ≤ r.qty
  stored : ∀ v, tv = some v → inI64 v

/-- the tolerance: in range, never above its ideal value, exact unless saturated -/
theorem tau_facts {E B : Int} (hE : 0 ≤ E) (hB : 0 < B) :
    0 ≤ tauNs E B ∧ tauNs E B ≤ I64_MAX ∧ tauNs E B ≤ eNs E * (B - 1) ∧
    (tauNs E B = eNs E * (B - 1) ∨ tauNs E B = I64_MAX) := by
  have he := eNs_range hE
  unfold tauNs
  rcases satMul_cases (eNs E) (B - 1) he.1 (by omega) with ⟨h1, h2⟩ | ⟨h1, h2⟩
  · have hp : 0 ≤ eNs E * (B - 1) := Int.mul_nonneg he.1 (by omega)
    rw [h1]; exact ⟨hp, h2, Int.le_refl _, Or.inl rfl⟩
  · rw [h1]; exact ⟨by bndT, Int.le_refl _, by omega, Or.inr rfl⟩

/-- the increment: in range and never above its ideal value -/
theorem inc_facts {E : Int} {r : Req} (hE : 0 ≤ E) (hq : 0 ≤ r.qty) :
    0 ≤ dInc E r ∧ dInc E r ≤ I64_MAX ∧ dInc E r ≤ eNs E * r.qty := by
  have he := eNs_range hE
  unfold dInc
  rcases satMul_cases (eNs E) r.qty he.1 hq with ⟨h1, h2⟩ | ⟨h1, h2⟩
  · have hp : 0 ≤ eNs E * r.qty := Int.mul_nonneg he.1 hq
    rw [h1]; exact ⟨hp, h2, Int.le_refl _⟩
  · rw [h1]; exact ⟨by bndT, Int.le_refl _, by omega⟩

theorem minTat_eq {E : Int} {r : Req} (hE : 0 ≤ E) (hn0 : 0 ≤ r.now) (hn1 : r.now ≤ T2200) :
    dMinTat E r = r.now - eNs E := by
  have he := eNs_range hE
  unfold dMinTat satSub
  apply clamp_id <;> bndT

theorem tat_facts {E : Int} {r : Req} {tv : Option Int} (h : ReqT E r tv) :
    r.now - eNs E ≤ dTat E r tv ∧ dTat E r tv ≤ I64_MAX ∧
    (tv = none → dTat E r tv = r.now - eNs E) := by
  have he := eNs_range h.hE
  have hm := minTat_eq h.hE h.now0 h.now1
  have hn1 := h.now1
  unfold dTat effTat
  rw [hm]
  cases htv : tv with
  | none => exact ⟨Int.le_refl _, by bndT, fun _ => rfl⟩
  | some v =>
    have hv := h.stored v htv
    refine ⟨Int.le_max_right _ _, ?_, fun hh => by simp at hh⟩
    have : max v (r.now - eNs E) = v ∨ max v (r.now - eNs E) = r.now - eNs E := by omega
    bndT

theorem new_facts {E : Int} {r : Req} {tv : Option Int} (h : ReqT E r tv) :
    dTat E r tv ≤ dNew E r tv ∧ dNew E r tv ≤ I64_MAX ∧ dNew E r tv ≤ dTat E r tv + dInc E r := by
  have he := eNs_range h.hE
  obtain ⟨t1, t2, _⟩ := tat_facts h
  obtain ⟨i1, i2, _⟩ := inc_facts (r := r) h.hE h.qty0
  have hn0 := h.now0
  unfold dNew satAdd
  refine ⟨clamp_ge_of_ge t2 (by omega), (clamp_range _).2, clamp_le_of_le (by bndT) (Int.le_refl _)⟩

theorem allowAt_facts (E : Int) (r : Req) (tv : Option Int) :
    inI64 (dAllowAt E r tv) := by
  unfold dAllowAt satSub; exact clamp_range _

theorem cur_facts {E : Int} {r : Req} {tv : Option Int} (h : ReqT E r tv) :
    r.now - eNs E ≤ dCur E r tv ∧ dCur E r tv ≤ I64_MAX := by
  obtain ⟨t1, t2, _⟩ := tat_facts h
  obtain ⟨n1, n2, _⟩ := new_facts h
  unfold dCur
  split
  · exact ⟨by omega, n2⟩
  · exact ⟨t1, t2⟩

theorem pad_facts {E : Int} {r : Req} (hE : 0 ≤ E) (hB : 0 < r.burst) :
    0 ≤ dPad E r ∧ dPad E r ≤ I64_MAX := by
  have he := eNs_range hE
  obtain ⟨t1, t2, _, _⟩ := tau_facts hE hB
  unfold dPad
  have : max (tauNs E r.burst) (eNs E) = tauNs E r.burst ∨ max (tauNs E r.burst) (eNs E) = eNs E := by omega
  omega

/-- `max (clamp x) 0` is a non-negative i64 -/
theorem max_clamp_range (x : Int) : 0 ≤ max (clampI64 x) 0 ∧ max (clampI64 x) 0 ≤ I64_MAX := by
  have := clamp_range x
  have h2 : max (clampI64 x) 0 = clampI64 x ∨ max (clampI64 x) 0 = 0 := by omega
  refine ⟨Int.le_max_right _ _, ?_⟩
  bndT

theorem ttl_range (E : Int) (r : Req) (tv : Option Int) : 0 ≤ dTtl E r tv ∧ dTtl E r tv ≤ I64_MAX := by
  unfold dTtl satAdd; exact max_clamp_range _

theorem reset_range (E : Int) (r : Req) (tv : Option Int) : 0 ≤ dReset E r tv ∧ dReset E r tv ≤ I64_MAX := by
  unfold dReset satAdd; exact max_clamp_range _

theorem retry_range (E : Int) (r : Req) (tv : Option Int) : 0 ≤ dRetry E r tv ∧ dRetry E r tv ≤ I64_MAX := by
  unfold dRetry
  split
  · bndT
  · unfold satSub; exact max_clamp_range _

/-! ### `retry_after = 0` exactly when admitted -/

theorem retry_zero_iff {E : Int} {r : Req} {tv : Option Int} (h : ReqT E r tv) :
    dRetry E r tv = 0 ↔ dAllowed E r tv = true := by
  have ha := allowAt_facts E r tv
  have hn0 := h.now0
  unfold dRetry
  by_cases hal : dAllowed E r tv = true
  · simp [hal]
  · simp only [hal, Bool.false_eq_true, if_false, iff_false]
    have hlt : r.now < dAllowAt E r tv := by
      unfold dAllowed at hal
      simp only [decide_eq_true_eq] at hal
      omega
    have hc : satSub (dAllowAt E r tv) r.now = dAllowAt E r tv - r.now := by
      unfold satSub; apply clamp_id <;> bndT
    rw [hc]
    omega

/-! ### `remaining ≤ max_burst` -/

theorem tdiv_nonpos_of_nonpos {a b : Int} (ha : a ≤ 0) (hb : 0 < b) : Int.tdiv a b ≤ 0 := by
  have h1 : Int.tdiv a b = - Int.tdiv (-a) b := by rw [Int.neg_tdiv]; omega
  rw [h1]
  have := Int.tdiv_nonneg (a := -a) (b := b) (by omega) (by omega)
  omega

/-- `room ≤ τ + e` and `τ ≤ e·(B-1)` give `room / e ≤ B` -/
theorem tdiv_le_burst {e τ B room : Int} (he : 0 < e) (hB : 0 < B) (hτ : τ ≤ e * (B - 1))
    (hroom : room ≤ τ + e) : Int.tdiv room e ≤ B := by
  by_cases hneg : room ≤ 0
  · have := tdiv_nonpos_of_nonpos hneg he; omega
  · have hmul : e * (B - 1) + e = e * B := by
      rw [Int.mul_sub, Int.mul_one]; omega
    have hle : room ≤ e * B := by omega
    rw [Int.tdiv_eq_ediv_of_nonneg (by omega)]
    have h1 := Int.ediv_le_ediv he hle
    rw [Int.mul_ediv_cancel_left B (by omega : e ≠ 0)] at h1
    exact h1

theorem room_le {E : Int} {r : Req} {tv : Option Int} (h : ReqT E r tv) :
    dRoom E r tv ≤ tauNs E r.burst + eNs E := by
  have he := eNs_range h.hE
  obtain ⟨t1, t2, _, _⟩ := tau_facts h.hE h.burst0
  obtain ⟨c1, c2⟩ := cur_facts h
  have hn0 := h.now0
  have hb : satAdd r.now (tauNs E r.burst) ≤ r.now + tauNs E r.burst := by
    unfold satAdd; exact clamp_le_of_le (by bndT) (Int.le_refl _)
  unfold dRoom satSub
  exact clamp_le_of_le (by bndT) (by omega)

theorem remaining_range {E : Int} {r : Req} {tv : Option Int} (h : ReqT E r tv) :
    0 ≤ dRemaining E r tv ∧ dRemaining E r tv ≤ r.burst := by
  have hB := h.burst0
  unfold dRemaining
  split
  · rename_i hpos
    obtain ⟨_, _, t3, _⟩ := tau_facts h.hE h.burst0
    have hd := tdiv_le_burst hpos hB t3 (room_le h)
    refine ⟨Int.le_max_right _ _, ?_⟩
    omega
  · omega

/-! ### a first request of at most `max_burst` tokens is admitted -/

theorem fresh_allowed {E : Int} {r : Req} (h : ReqT E r none) (hq : r.qty ≤ r.burst) :
    dAllowed E r none = true := by
  have he := eNs_range h.hE
  obtain ⟨t1, t2, t3, t4⟩ := tau_facts h.hE h.burst0
  obtain ⟨_, _, htat⟩ := tat_facts h
  have htat := htat rfl
  obtain ⟨i1, i2, i3⟩ := inc_facts (r := r) h.hE h.qty0
  obtain ⟨n1, n2, n3⟩ := new_facts h
  have hn0 := h.now0
  -- e·q ≤ e·B = e·(B-1) + e
  have hmono : eNs E * r.qty ≤ eNs E * r.burst := Int.mul_le_mul_of_nonneg_left hq he.1
  have hmul : eNs E * (r.burst - 1) + eNs E = eNs E * r.burst := by
    rw [Int.mul_sub, Int.mul_one]; omega
  have hkey : dNew E r none - tauNs E r.burst ≤ r.now := by
    rcases t4 with h4 | h4
    · rw [h4]; omega
    · rw [h4]; omega
  have hle : dAllowAt E r none ≤ r.now := by
    unfold dAllowAt satSub
    exact clamp_le_of_le (by bndT) hkey
  unfold dAllowed
  simp only [decide_eq_true_eq]
  omega

end TcVerif
