/-
  Helper lemmas for C15: the accounting invariant of the concurrency model.

  `counter c  +  (increments of c still owed by calls in flight)  =  (increments of c of all
  calls ever started)` holds in every reachable state, for every interleaving.
-/
import TcVerif.Model.Metrics

namespace TcVerif.Metrics

/-! ## counters -/

theorem get_bump (c : Counters) (x y : Counter) :
    (c.bump x).get y = c.get y + if x = y then 1 else 0 := by
  cases x <;> cases y <;> simp [Counters.bump, Counters.get]

theorem get_le_bump (c : Counters) (x y : Counter) : c.get y ≤ (c.bump x).get y := by
  rw [get_bump]; omega

/-! ## owed and due increments -/

/-- increments of `c` not yet performed by the calls in flight -/
def pending (fs : List Flight) (c : Counter) : Nat := (fs.map fun f => f.remaining.count c).sum

/-- increments of `c` that the started calls perform in total -/
def due (h : List Event) (c : Counter) : Nat := (h.map fun e => e.incs.count c).sum

theorem pending_nil (c : Counter) : pending [] c = 0 := rfl

theorem pending_cons (f : Flight) (fs : List Flight) (c : Counter) :
    pending (f :: fs) c = f.remaining.count c + pending fs c := by
  simp [pending]

theorem pending_append (a b : List Flight) (c : Counter) :
    pending (a ++ b) c = pending a c + pending b c := by
  simp [pending, List.sum_append]

theorem due_cons (e : Event) (h : List Event) (c : Counter) :
    due (e :: h) c = e.incs.count c + due h c := by
  simp [due]

theorem pending_of_quiescent {fs : List Flight} (h : ∀ f ∈ fs, f.remaining = []) (c : Counter) :
    pending fs c = 0 := by
  induction fs with
  | nil => rfl
  | cons f fs ih =>
    rw [pending_cons, h f (by simp), ih (fun g hg => h g (by simp [hg]))]
    simp

/-- the accounting invariant -/
def Inv (s : State) : Prop :=
  ∀ c, s.counters.get c + pending s.flights c = due s.history c

theorem inv_init : Inv State.init := by
  intro c; cases c <;> rfl

theorem inv_step {s s' : State} (hi : Inv s) (hs : Step s s') : Inv s' := by
  intro c
  have h := hi c
  cases hs with
  | start e =>
    simp only [pending_cons, due_cons]
    omega
  | inc pre post e x rest hf =>
    rw [hf] at h
    simp only [pending_append, pending_cons, List.count_cons, beq_iff_eq] at h
    simp only [pending_append, pending_cons, get_bump]
    omega
  | finish pre post e hf =>
    rw [hf] at h
    simp only [pending_append, pending_cons, List.count_nil] at h
    simp only [pending_append]
    omega

theorem inv_of_reachable {s : State} (hr : Reachable s) : Inv s := by
  induction hr with
  | init => exact inv_init
  | step _ hs ih => exact inv_step ih hs

/-- at a quiescent point every counter is exactly the number of increments of started calls -/
theorem get_eq_due {s : State} (hr : Reachable s) (hq : Quiescent s) (c : Counter) :
    s.counters.get c = due s.history c := by
  have h := inv_of_reachable hr c
  rw [pending_of_quiescent hq] at h
  omega

/-! ## per-call arithmetic -/

theorem ev_total_transports (e : Event) :
    e.incs.count .total = e.incs.count .http + e.incs.count .grpc + e.incs.count .redis := by
  cases e with
  | request t a => cases t <;> cases a <;> decide
  | error t => cases t <;> decide

theorem ev_total_outcomes (e : Event) :
    e.incs.count .total = e.incs.count .allowed + e.incs.count .denied + e.incs.count .errors := by
  cases e with
  | request t a => cases t <;> cases a <;> decide
  | error t => cases t <;> decide

theorem ev_total (e : Event) : e.incs.count .total = 1 := by
  cases e with
  | request t a => cases t <;> cases a <;> decide
  | error t => cases t <;> decide

theorem ev_allowed (e : Event) : e.incs.count .allowed = if e.isAllowed then 1 else 0 := by
  cases e with
  | request t a => cases t <;> cases a <;> decide
  | error t => cases t <;> decide

theorem ev_denied (e : Event) : e.incs.count .denied = if e.isDenied then 1 else 0 := by
  cases e with
  | request t a => cases t <;> cases a <;> decide
  | error t => cases t <;> decide

theorem ev_errors (e : Event) : e.incs.count .errors = if e.isError then 1 else 0 := by
  cases e with
  | request t a => cases t <;> cases a <;> decide
  | error t => cases t <;> decide

theorem ev_transport (e : Event) (t : Transport) :
    e.incs.count t.counter = if e.onTransport t then 1 else 0 := by
  cases e with
  | request t' a => cases t <;> cases t' <;> cases a <;> decide
  | error t' => cases t <;> cases t' <;> decide

theorem due_total_transports (h : List Event) :
    due h .total = due h .http + due h .grpc + due h .redis := by
  induction h with
  | nil => rfl
  | cons e h ih => simp only [due_cons, ev_total_transports e]; omega

theorem due_total_outcomes (h : List Event) :
    due h .total = due h .allowed + due h .denied + due h .errors := by
  induction h with
  | nil => rfl
  | cons e h ih => simp only [due_cons, ev_total_outcomes e]; omega

theorem due_eq_countP (h : List Event) (c : Counter) (p : Event → Bool)
    (hp : ∀ e : Event, e.incs.count c = if p e then 1 else 0) : due h c = h.countP p := by
  induction h with
  | nil => rfl
  | cons e h ih =>
    rw [due_cons, hp e, ih, List.countP_cons]
    omega

theorem due_total (h : List Event) : due h .total = h.length := by
  induction h with
  | nil => rfl
  | cons e h ih => rw [due_cons, ev_total, ih, List.length_cons]; omega

/-! ## sequential execution (what the driver's `mrun` computes) -/

theorem get_foldl_bump (l : List Counter) (c : Counters) (x : Counter) :
    (l.foldl Counters.bump c).get x = c.get x + l.count x := by
  induction l generalizing c with
  | nil => simp
  | cons y l ih =>
    rw [List.foldl_cons, ih, get_bump, List.count_cons]
    simp only [beq_iff_eq]
    omega

theorem get_record (c : Counters) (e : Event) (x : Counter) :
    (c.record e).get x = c.get x + e.incs.count x := get_foldl_bump _ _ _

theorem get_recordAll (es : List Event) (c : Counters) (x : Counter) :
    (c.recordAll es).get x = c.get x + due es x := by
  induction es generalizing c with
  | nil => simp [Counters.recordAll, due]
  | cons e es ih =>
    have := ih (c.record e)
    simp only [Counters.recordAll, List.foldl_cons] at this ⊢
    rw [this, get_record, due_cons]
    omega

/-! ## program order: a call in flight still owes a SUFFIX of its increments -/

def SuffixInv (s : State) : Prop := ∀ f ∈ s.flights, f.remaining <:+ f.event.incs

theorem suffixInv_of_reachable {s : State} (hr : Reachable s) : SuffixInv s := by
  induction hr with
  | init => intro f hf; cases hf
  | step _ hs ih =>
    cases hs with
    | start e =>
      intro f hf
      simp only [List.mem_cons] at hf
      rcases hf with rfl | hf
      · exact List.suffix_refl _
      · exact ih f hf
    | inc pre post e x rest hfl =>
      intro f hf
      simp only [List.mem_append, List.mem_cons] at hf
      have hmem : (⟨e, x :: rest⟩ : Flight) ∈ pre ++ ⟨e, x :: rest⟩ :: post := by simp
      rcases hf with hf | rfl | hf
      · exact ih f (by rw [hfl]; simp [hf])
      · have := ih _ (by rw [hfl]; exact hmem)
        exact List.IsSuffix.trans (List.suffix_cons x rest) this
      · exact ih f (by rw [hfl]; simp [hf])
    | finish pre post e hfl =>
      intro f hf
      simp only [List.mem_append] at hf
      exact ih f (by rw [hfl]; rcases hf with hf | hf <;> simp [hf])

/-- all suffixes of the two increment lists: `total` is bumped first, so whoever still owes
    `total` still owes its transport bump and its outcome bump -/
theorem suffix_total_le {e : Event} {r : List Counter} (h : r <:+ e.incs) :
    r.count .total ≤ r.count .http + r.count .grpc + r.count .redis ∧
    r.count .total ≤ r.count .allowed + r.count .denied + r.count .errors := by
  have key : ∀ l : List Counter, r <:+ l → l = e.incs →
      (r = e.incs ∨ r = e.incs.drop 1 ∨ r = e.incs.drop 2 ∨ r = []) := by
    intro l hl he
    subst he
    cases e with
    | request t a =>
      simp only [Event.incs, List.suffix_cons_iff, List.suffix_nil] at hl
      rcases hl with h | h | h | h <;> simp [Event.incs, h]
    | error t =>
      simp only [Event.incs, List.suffix_cons_iff, List.suffix_nil] at hl
      rcases hl with h | h | h | h <;> simp [Event.incs, h]
  rcases key _ h rfl with h | h | h | h <;> subst h
  · have := ev_total_transports e; have := ev_total_outcomes e; omega
  · cases e with
    | request t a => cases t <;> cases a <;> decide
    | error t => cases t <;> decide
  · cases e with
    | request t a => cases t <;> cases a <;> decide
    | error t => cases t <;> decide
  · simp

theorem pending_total_le {fs : List Flight} (h : ∀ f ∈ fs, f.remaining <:+ f.event.incs) :
    pending fs .total ≤ pending fs .http + pending fs .grpc + pending fs .redis ∧
    pending fs .total ≤ pending fs .allowed + pending fs .denied + pending fs .errors := by
  induction fs with
  | nil => simp [pending]
  | cons f fs ih =>
    have h1 := suffix_total_le (h f (by simp))
    have h2 := ih (fun g hg => h g (by simp [hg]))
    simp only [pending_cons]
    omega

end TcVerif.Metrics
