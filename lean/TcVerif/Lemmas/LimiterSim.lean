/-
  Two stores related by a simulation give the same limiter: responses, store-operation
  traces, and related final states.  Instantiated with (any concrete store, abstract map).
-/
import TcVerif.Lemmas.StoreSim
namespace TcVerif

/-- `S` and `T` simulate each other (relation `R`, indexed by the current time) on every
    operation whose key satisfies `P`. -/
structure OpsSimOn {σ τ : Type} (P : Key → Prop) (S : StoreOps σ) (T : StoreOps τ) (R : Int → σ → τ → Prop) : Prop where
  mono : ∀ {now now' : Int} {s : σ} {t : τ}, now ≤ now' → R now s t → R now' s t
  get : ∀ {now : Int} {s : σ} {t : τ} (k : Key), P k → R now s t → S.get s k now = T.get t k now
  cas : ∀ {now : Int} {s : σ} {t : τ} (k : Key) (old new ttl : Int), P k → R now s t →
    (S.cas s k old new ttl now).2 = (T.cas t k old new ttl now).2 ∧
    R now (S.cas s k old new ttl now).1 (T.cas t k old new ttl now).1
  setnx : ∀ {now : Int} {s : σ} {t : τ} (k : Key) (v ttl : Int), P k → R now s t →
    (S.setnx s k v ttl now).2 = (T.setnx t k v ttl now).2 ∧
    R now (S.setnx s k v ttl now).1 (T.setnx t k v ttl now).1

abbrev OpsSim {σ τ : Type} (S : StoreOps σ) (T : StoreOps τ) (R : Int → σ → τ → Prop) : Prop :=
  OpsSimOn (fun _ => True) S T R

theorem anyStore_sim_amap : OpsSim AnyStore.ops AMap.ops SimStore where
  mono := fun h hs => simStore_mono h hs
  get := fun k _ hs => simStore_get hs k
  cas := fun k old new ttl _ hs => simStore_cas hs k old new ttl
  setnx := fun k v ttl _ hs => simStore_setnx hs k v ttl

variable {σ τ : Type} {S : StoreOps σ} {T : StoreOps τ} {R : Int → σ → τ → Prop} {P : Key → Prop}

theorem rlLoop_sim (h : OpsSimOn P S T R) (fuel : Nat) (s : σ) (t : τ) (E : Int) (r : Req)
    (tr : List StoreOp) (hp : P r.key) (hr : R r.now s t) :
    (rlLoop S fuel s E r tr).2 = (rlLoop T fuel t E r tr).2 ∧
    R r.now (rlLoop S fuel s E r tr).1 (rlLoop T fuel t E r tr).1 := by
  induction fuel generalizing s t tr with
  | zero => exact ⟨rfl, hr⟩
  | succ n ih =>
    simp only [rlLoop]
    rw [h.get r.key hp hr]
    split
    · cases hg : T.get t r.key r.now with
      | some old =>
        simp only
        obtain ⟨h1, h2⟩ := h.cas r.key old (decision E r (some old)).newTat (decision E r (some old)).ttl hp hr
        rw [h1]
        split
        · exact ⟨rfl, h2⟩
        · exact ih _ _ _ h2
      | none =>
        simp only
        obtain ⟨h1, h2⟩ := h.setnx r.key (decision E r none).newTat (decision E r none).ttl hp hr
        rw [h1]
        split
        · exact ⟨rfl, h2⟩
        · exact ih _ _ _ h2
    · exact ⟨rfl, hr⟩

theorem rateLimitE_sim (h : OpsSimOn P S T R) (s : σ) (t : τ) (E : Int) (r : Req) (hp : P r.key) (hr : R r.now s t) :
    (rateLimitE S s E r).2 = (rateLimitE T t E r).2 ∧
    R r.now (rateLimitE S s E r).1 (rateLimitE T t E r).1 := by
  unfold rateLimitE
  split
  · exact ⟨rfl, hr⟩
  · split
    · exact ⟨rfl, hr⟩
    · exact rlLoop_sim h _ s t E r [] hp hr

/-- timestamps of a history never decrease, starting at or after `t0` -/
def MonotoneFrom (t0 : Int) (rs : List Req) : Prop := NonDecreasingFrom t0 (rs.map (·.now))

instance (t0 : Int) (rs : List Req) : Decidable (MonotoneFrom t0 rs) := by unfold MonotoneFrom; exact inferInstance

theorem runTagged_sim (h : OpsSim S T R) (ei : Int → Int → Int) (rs : List Req) (t0 : Int)
    (s : σ) (t : τ) (hr : R t0 s t) (hm : MonotoneFrom t0 rs) :
    runTagged S ei s rs = runTagged T ei t rs := by
  induction rs generalizing s t t0 with
  | nil => rfl
  | cons r rs ih =>
    obtain ⟨h0, hm'⟩ := hm
    have hr' := h.mono h0 hr
    obtain ⟨h1, h2⟩ := rateLimitE_sim h s t (ei r.count r.period) r trivial hr'
    simp only [runTagged]
    have h1' : (rateLimitE S s (ei r.count r.period) r).2.1 = (rateLimitE T t (ei r.count r.period) r).2.1 := by
      rw [h1]
    rw [h1']
    congr 1
    exact ih r.now _ _ h2 hm'

end TcVerif

namespace TcVerif
variable {σ τ : Type} {S : StoreOps σ} {T : StoreOps τ} {R : Int → σ → τ → Prop}

theorem applyOp_sim (h : OpsSim S T R) (s : σ) (t : τ) (op : SOp) (hr : R op.now s t) :
    (applyOp S s op).2 = (applyOp T t op).2 ∧ R op.now (applyOp S s op).1 (applyOp T t op).1 := by
  cases op with
  | get k now =>
    have hr' : R now s t := hr
    exact ⟨by simp only [applyOp]; rw [h.get k trivial hr'], hr⟩
  | cas k old new ttl now =>
    have hr' : R now s t := hr
    obtain ⟨h1, h2⟩ := h.cas k old new ttl trivial hr'
    exact ⟨by simp only [applyOp]; rw [h1], h2⟩
  | setnx k v ttl now =>
    have hr' : R now s t := hr
    obtain ⟨h1, h2⟩ := h.setnx k v ttl trivial hr'
    exact ⟨by simp only [applyOp]; rw [h1], h2⟩

theorem runOps_sim (h : OpsSim S T R) (ops : List SOp) (t0 : Int) (s : σ) (t : τ)
    (hr : R t0 s t) (hm : NonDecreasingFrom t0 (ops.map (·.now))) :
    runOps S s ops = runOps T t ops := by
  induction ops generalizing s t t0 with
  | nil => rfl
  | cons op ops ih =>
    obtain ⟨h0, hm'⟩ := hm
    obtain ⟨h1, h2⟩ := applyOp_sim h s t op (h.mono h0 hr)
    simp only [runOps]
    rw [h1]
    congr 1
    exact ih op.now _ _ h2 hm'

end TcVerif
