/-
  Refinement of the three concrete stores to the abstract expiring map (C06) and the
  generic "two stores that simulate each other give the same limiter" argument.
-/
import TcVerif.Lemmas.Data
import TcVerif.Model.Gcra
namespace TcVerif
open Data

/-- the concrete table `c` and the abstract map's table `a` show the same entries to every
    observer at `now` (and hence, by `sim_mono`, at every later time) -/
def Sim (now : Int) (c a : Data) : Prop := NodupKeys c ∧ ∀ k, live c now k = live a now k

theorem sim_mono {now now' : Int} {c a : Data} (h : now ≤ now') (hs : Sim now c a) : Sim now' c a := by
  refine ⟨hs.1, fun k => ?_⟩
  rw [live_mono c now now' k h, live_mono a now now' k h, hs.2 k]

theorem sim_sweep {now t : Int} {c a : Data} (ht : t ≤ now) (hs : Sim now c a) : Sim now (sweep c t) a := by
  refine ⟨nodup_sweep c t hs.1, fun k => ?_⟩
  rw [live_sweep c t now k hs.1 ht, hs.2 k]

theorem sim_get {now : Int} {c a : Data} (hs : Sim now c a) (k : Key) : get c k now = get a k now := by
  rw [get_eq_live, get_eq_live, hs.2 k]

theorem sim_insert {now : Int} {c a : Data} (hs : Sim now c a) (k : Key) (v x : Int) :
    Sim now (insert c k v x) (insert a k v x) := by
  refine ⟨nodup_insert c k v x hs.1, fun k' => ?_⟩
  rw [live_insert, live_insert, hs.2 k']

theorem sim_cas {now : Int} {c a : Data} (hs : Sim now c a) (k : Key) (old new ttl : Int) :
    (cas c k old new ttl now).2.1 = (cas a k old new ttl now).2.1 ∧
    Sim now (cas c k old new ttl now).1 (cas a k old new ttl now).1 := by
  rw [cas_eq, cas_eq, hs.2 k]
  cases hl : live a now k with
  | none => exact ⟨rfl, hs⟩
  | some p =>
    obtain ⟨cur, e⟩ := p
    by_cases hc : cur = old
    · simp only [hc, if_true]; exact ⟨trivial, sim_insert hs k new (now + ttl)⟩
    · simp only [hc, if_false]; exact ⟨trivial, hs⟩

theorem sim_setnx {now : Int} {c a : Data} (hs : Sim now c a) (k : Key) (v ttl : Int) :
    (setnx c k v ttl now).2.1 = (setnx a k v ttl now).2.1 ∧
    Sim now (setnx c k v ttl now).1 (setnx a k v ttl now).1 := by
  rw [setnx_eq, setnx_eq, hs.2 k]
  cases hl : live a now k with
  | none => exact ⟨rfl, sim_insert hs k v (now + ttl)⟩
  | some p => exact ⟨rfl, hs⟩

/-! ### every concrete store's write is "maybe sweep at `now`, then the table operation" -/

theorem Periodic.maybeClean_data (s : Periodic) (now : Int) :
    (s.maybeClean now).data = s.data ∨ (s.maybeClean now).data = s.data.sweep now := by
  unfold Periodic.maybeClean
  split
  · right; rfl
  · left; rfl

theorem Adaptive.maybeClean_data (s : Adaptive) (now : Int) :
    (s.maybeClean now).data = s.data ∨ (s.maybeClean now).data = s.data.sweep now := by
  unfold Adaptive.maybeClean
  simp only
  split
  · right; rfl
  · left; rfl

theorem Prob.maybeCleanup_data (s : Prob) (now : Int) :
    (s.maybeCleanup now).data = s.data ∨ (s.maybeCleanup now).data = s.data.sweep now := by
  unfold Prob.maybeCleanup
  simp only
  split
  · right; rfl
  · left; rfl

theorem sim_maybe {now : Int} {c c' a : Data} (hs : Sim now c a)
    (h : c' = c ∨ c' = c.sweep now) : Sim now c' a := by
  cases h with
  | inl h => rw [h]; exact hs
  | inr h => rw [h]; exact sim_sweep (Int.le_refl now) hs

/-- relation between any concrete store and the abstract map -/
def SimStore (now : Int) (st : AnyStore) (a : AMap) : Prop := Sim now st.data a.data

theorem simStore_mono {now now' : Int} {st : AnyStore} {a : AMap} (h : now ≤ now')
    (hs : SimStore now st a) : SimStore now' st a := sim_mono h hs

theorem simStore_get {now : Int} {st : AnyStore} {a : AMap} (hs : SimStore now st a) (k : Key) :
    AnyStore.ops.get st k now = AMap.ops.get a k now := by
  cases st <;> exact sim_get hs k

theorem simStore_cas {now : Int} {st : AnyStore} {a : AMap} (hs : SimStore now st a)
    (k : Key) (old new ttl : Int) :
    (AnyStore.ops.cas st k old new ttl now).2 = (AMap.ops.cas a k old new ttl now).2 ∧
    SimStore now (AnyStore.ops.cas st k old new ttl now).1 (AMap.ops.cas a k old new ttl now).1 := by
  cases st with
  | amap s => exact sim_cas hs k old new ttl
  | periodic s => exact sim_cas (sim_maybe hs (Periodic.maybeClean_data s now)) k old new ttl
  | adaptive s => exact sim_cas (sim_maybe hs (Adaptive.maybeClean_data s now)) k old new ttl
  | prob s => exact sim_cas (sim_maybe hs (Prob.maybeCleanup_data s now)) k old new ttl

theorem simStore_setnx {now : Int} {st : AnyStore} {a : AMap} (hs : SimStore now st a)
    (k : Key) (v ttl : Int) :
    (AnyStore.ops.setnx st k v ttl now).2 = (AMap.ops.setnx a k v ttl now).2 ∧
    SimStore now (AnyStore.ops.setnx st k v ttl now).1 (AMap.ops.setnx a k v ttl now).1 := by
  cases st with
  | amap s => exact sim_setnx hs k v ttl
  | periodic s => exact sim_setnx (sim_maybe hs (Periodic.maybeClean_data s now)) k v ttl
  | adaptive s => exact sim_setnx (sim_maybe hs (Adaptive.maybeClean_data s now)) k v ttl
  | prob s => exact sim_setnx (sim_maybe hs (Prob.maybeCleanup_data s now)) k v ttl

end TcVerif
