/-
  Lemmas about the CRLF line scanner (`findCRLF` / `readLine`).
-/
import TcVerif.Model.Resp

namespace TcVerif.Resp

theorem findCRLF_nil : findCRLF [] = none := rfl
theorem findCRLF_single (a : UInt8) : findCRLF [a] = none := rfl

theorem findCRLF_cons2 (a b : UInt8) (r : List UInt8) :
    findCRLF (a :: b :: r) =
      if a = 13 ∧ b = 10 then some 0
      else match findCRLF (b :: r) with
        | some i => some (i + 1)
        | none => none := by
  rfl

/-- the scanner result is an in-bounds position of a CR LF pair -/
theorem findCRLF_bound : ∀ (d : List UInt8) (i : Nat), findCRLF d = some i → i + 2 ≤ d.length
  | [], i, h => by simp [findCRLF_nil] at h
  | [a], i, h => by simp [findCRLF_single] at h
  | a :: b :: r, i, h => by
    rw [findCRLF_cons2] at h
    split at h
    · cases h; simp
    · split at h
      · rename_i j hj
        cases h
        have := findCRLF_bound (b :: r) j hj
        simp only [List.length_cons] at this ⊢; omega
      · cases h

theorem findCRLF_append : ∀ (d x : List UInt8) (i : Nat),
    findCRLF d = some i → findCRLF (d ++ x) = some i
  | [], _, i, h => by simp [findCRLF_nil] at h
  | [a], _, i, h => by simp [findCRLF_single] at h
  | a :: b :: r, x, i, h => by
    rw [findCRLF_cons2] at h
    show findCRLF (a :: b :: (r ++ x)) = some i
    rw [findCRLF_cons2]
    split at h
    · rename_i hc; simp only [hc, and_self, if_true]; exact h
    · rename_i hc
      simp only [hc, if_false]
      split at h
      · rename_i j hj
        have := findCRLF_append (b :: r) x j hj
        simp only [List.cons_append] at this
        rw [this]; exact h
      · cases h

/-- decomposition of the input at the first CR LF -/
theorem findCRLF_split : ∀ (d : List UInt8) (i : Nat), findCRLF d = some i →
    d = d.take i ++ 13 :: 10 :: d.drop (i + 2)
  | [], i, h => by simp [findCRLF_nil] at h
  | [a], i, h => by simp [findCRLF_single] at h
  | a :: b :: r, i, h => by
    rw [findCRLF_cons2] at h
    split at h
    · rename_i hc; cases h; simp [hc.1, hc.2]
    · split at h
      · rename_i j hj
        cases h
        have := findCRLF_split (b :: r) j hj
        simp only [List.take_succ_cons, List.drop_succ_cons, List.cons_append]
        congr 1
      · cases h

/-- no CR LF pair starts strictly before the reported position: the scanner finds the FIRST one -/
theorem findCRLF_take_none : ∀ (d : List UInt8) (i : Nat), findCRLF d = some i →
    findCRLF (d.take i) = none
  | [], i, h => by simp [findCRLF_nil] at h
  | [a], i, h => by simp [findCRLF_single] at h
  | a :: b :: r, i, h => by
    rw [findCRLF_cons2] at h
    split at h
    · cases h; rfl
    · rename_i hc
      split at h
      · rename_i j hj
        cases h
        have ih := findCRLF_take_none (b :: r) j hj
        cases j with
        | zero => rfl
        | succ j =>
          simp only [List.take_succ_cons] at ih ⊢
          rw [findCRLF_cons2]
          simp only [hc, if_false, ih]
      · cases h

/-- the scanner only looks at the bytes up to and including the CR LF it finds -/
theorem findCRLF_take_ge : ∀ (d : List UInt8) (i k : Nat), findCRLF d = some i → i + 2 ≤ k →
    findCRLF (d.take k) = some i
  | [], i, _, h, _ => by simp [findCRLF_nil] at h
  | [a], i, _, h, _ => by simp [findCRLF_single] at h
  | a :: b :: r, i, k, h, hk => by
    rw [findCRLF_cons2] at h
    obtain ⟨k', rfl⟩ : ∃ k', k = k' + 2 := ⟨k - 2, by omega⟩
    simp only [List.take_succ_cons]
    rw [findCRLF_cons2]
    split at h
    · rename_i hc; simp only [hc, and_self, if_true]; exact h
    · rename_i hc
      simp only [hc, if_false]
      split at h
      · rename_i j hj
        cases h
        have ih := findCRLF_take_ge (b :: r) j (k' + 1) hj (by omega)
        simp only [List.take_succ_cons] at ih
        rw [ih]
      · cases h

theorem findCRLF_cons_ne (t : UInt8) (r : List UInt8) (ht : t ≠ 13) :
    findCRLF (t :: r) = match findCRLF r with
      | some i => some (i + 1)
      | none => none := by
  cases r with
  | nil => rfl
  | cons b r =>
    rw [findCRLF_cons2]
    simp [ht]

/-- a payload without CR LF followed by CR LF: the scanner stops exactly after the payload -/
theorem findCRLF_payload : ∀ (s x : List UInt8), findCRLF s = none →
    findCRLF (s ++ 13 :: 10 :: x) = some s.length
  | [], x, _ => by simp [findCRLF_cons2]
  | [a], x, _ => by
    show findCRLF (a :: 13 :: 10 :: x) = some 1
    rw [findCRLF_cons2, findCRLF_cons2]
    simp
  | a :: b :: r, x, h => by
    rw [findCRLF_cons2] at h
    show findCRLF (a :: b :: (r ++ 13 :: 10 :: x)) = _
    rw [findCRLF_cons2]
    split at h
    · cases h
    · rename_i hc
      simp only [hc, if_false]
      split at h
      · cases h
      · rename_i hn
        have := findCRLF_payload (b :: r) x hn
        simp only [List.cons_append] at this
        rw [this]; simp

theorem findCRLF_tail_none : ∀ (l : List UInt8), findCRLF l = none → findCRLF (l.drop 1) = none
  | [], _ => rfl
  | [a], _ => rfl
  | a :: b :: r, h => by
    rw [findCRLF_cons2] at h
    split at h
    · cases h
    · split at h
      · cases h
      · rename_i hn; simpa using hn

/-! ### readLine -/

theorem readLine_eq_some {d : List UInt8} {l : List UInt8} {n : Nat} (h : readLine d = some (l, n)) :
    ∃ i, findCRLF d = some i ∧ l = d.take i ∧ n = i + 2 := by
  unfold readLine at h
  split at h
  · rename_i i hi; cases h; exact ⟨i, hi, rfl, rfl⟩
  · cases h

theorem readLine_eq_none {d : List UInt8} (h : readLine d = none) : findCRLF d = none := by
  unfold readLine at h
  split at h
  · cases h
  · assumption

theorem readLine_bound {d l : List UInt8} {n : Nat} (h : readLine d = some (l, n)) :
    2 ≤ n ∧ n ≤ d.length ∧ l.length + 2 = n := by
  obtain ⟨i, hi, rfl, rfl⟩ := readLine_eq_some h
  have := findCRLF_bound d i hi
  simp only [List.length_take]; omega

theorem readLine_append {d l : List UInt8} {n : Nat} (x : List UInt8)
    (h : readLine d = some (l, n)) : readLine (d ++ x) = some (l, n) := by
  obtain ⟨i, hi, rfl, rfl⟩ := readLine_eq_some h
  have hb := findCRLF_bound d i hi
  unfold readLine
  rw [findCRLF_append d x i hi]
  simp only [Option.some.injEq, Prod.mk.injEq, and_true]
  rw [List.take_append_of_le_length (by omega)]

theorem readLine_take {d l : List UInt8} {n : Nat} (k : Nat)
    (h : readLine d = some (l, n)) (hk : n ≤ k) : readLine (d.take k) = some (l, n) := by
  obtain ⟨i, hi, rfl, rfl⟩ := readLine_eq_some h
  unfold readLine
  rw [findCRLF_take_ge d i k hi hk]
  simp only [Option.some.injEq, Prod.mk.injEq, and_true]
  rw [List.take_take]; congr 1; omega

/-- `line[1..]` is in bounds whenever the frame starts with a type byte other than CR -/
theorem readLine_line_nonempty {t : UInt8} {r l : List UInt8} {n : Nat} (ht : t ≠ 13)
    (h : readLine (t :: r) = some (l, n)) : 1 ≤ l.length := by
  obtain ⟨i, hi, rfl, rfl⟩ := readLine_eq_some h
  rw [findCRLF_cons_ne t r ht] at hi
  split at hi
  · cases hi
    have := findCRLF_bound _ _ ‹_›
    simp only [List.length_take, List.length_cons]; omega
  · cases hi

/-- the parsed line (without its type byte) contains no CR LF -/
theorem readLine_line_noCRLF {d l : List UInt8} {n : Nat} (h : readLine d = some (l, n)) :
    noCRLF (l.drop 1) = true := by
  obtain ⟨i, hi, rfl, rfl⟩ := readLine_eq_some h
  unfold noCRLF
  rw [findCRLF_tail_none _ (findCRLF_take_none d i hi)]; rfl

/-- line framing used by the encoder: type byte, payload without CR LF, CR LF -/
theorem readLine_frame (t : UInt8) (s x : List UInt8) (ht : t ≠ 13) (hs : noCRLF s = true) :
    readLine (t :: (s ++ crlf) ++ x) = some (t :: s, s.length + 3) := by
  have hs' : findCRLF s = none := by
    unfold noCRLF at hs; cases h : findCRLF s <;> simp_all
  have e : t :: (s ++ crlf) ++ x = t :: (s ++ 13 :: 10 :: x) := by simp [crlf]
  unfold readLine
  rw [e, findCRLF_cons_ne t _ ht, findCRLF_payload s x hs']
  simp

end TcVerif.Resp
