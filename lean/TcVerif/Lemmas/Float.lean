/-
  Soft-float lemmas, part 1: integer round-half-even division `rneDiv`, the
  "rounding never crosses an integer" lemma, and `rne` expressed through `rneDiv`.
-/
import TcVerif.Model.SoftFloat
namespace TcVerif

/-- round-half-even of the rational `a/d` to an integer -/
def rneDiv (a d : Nat) : Nat :=
  if 2 * (a % d) > d ∨ (2 * (a % d) = d ∧ (a / d) % 2 = 1) then a / d + 1 else a / d

theorem rneDiv_of_dvd_rem {a d : Nat} (hd : 0 < d) (h : a % d = 0) : rneDiv a d = a / d := by
  unfold rneDiv
  rw [h]
  have : ¬ (2 * 0 > d ∨ (2 * 0 = d ∧ (a / d) % 2 = 1)) := by omega
  rw [if_neg this]

theorem rneDiv_mul_right (a d g : Nat) (hg : 0 < g) : rneDiv (a * g) (d * g) = rneDiv a d := by
  unfold rneDiv
  rw [Nat.mul_div_mul_right _ _ hg, Nat.mul_mod_mul_right]
  have h1 : (2 * (a % d * g) > d * g) ↔ (2 * (a % d) > d) := by
    rw [← Nat.mul_assoc]
    exact Nat.mul_lt_mul_right hg
  have h2 : (2 * (a % d * g) = d * g) ↔ (2 * (a % d) = d) := by
    rw [← Nat.mul_assoc]
    exact Nat.mul_right_cancel_iff hg
  simp only [h1, h2]

theorem rneDiv_ge (a d : Nat) : a / d ≤ rneDiv a d := by
  unfold rneDiv; split <;> omega

theorem rneDiv_le (a d : Nat) : rneDiv a d ≤ a / d + 1 := by
  unfold rneDiv; split <;> omega

/-- KEY LEMMA. Rounding `P·2^J / c` to the nearest integer (ties to even) and then dropping the
    `J` low bits gives exactly `⌊P / c⌋`, as soon as `c < 2^(J+1)`: the distance from `P/c` to the
    next integer is at least `1/c`, which exceeds half a unit `2^-(J+1)` of the scaled grid. -/
theorem rneDiv_shift_floor (P c J : Nat) (hc : 0 < c) (hlt : c < 2 ^ (J + 1)) :
    rneDiv (P * 2 ^ J) c / 2 ^ J = P / c := by
  have hT : 0 < 2 ^ J := Nat.two_pow_pos J
  have hfloor : P * 2 ^ J / c / 2 ^ J = P / c := by
    rw [Nat.div_div_eq_div_mul, Nat.mul_div_mul_right _ _ hT]
  unfold rneDiv
  split
  · rename_i hup
    -- rounding up: show no carry across a multiple of 2^J
    have h2T : 2 ^ (J + 1) = 2 * 2 ^ J := by rw [Nat.pow_succ, Nat.mul_comm]
    rw [h2T] at hlt
    have hA := Nat.div_add_mod (P * 2 ^ J) c
    have hR := Nat.mod_lt (P * 2 ^ J) hc
    have hP := Nat.div_add_mod P c
    have hr := Nat.mod_lt P hc
    have hQ := Nat.div_add_mod (P * 2 ^ J / c) (2 ^ J)
    have hs := Nat.mod_lt (P * 2 ^ J / c) hT
    rw [hfloor] at hQ
    -- (Q+1)/T = q  ⇔  T*q ≤ Q+1 < T*(q+1)
    apply Nat.div_eq_of_lt_le
    · rw [Nat.mul_comm]; omega
    · -- Q + 1 < (q+1) * T
      rw [Nat.add_mul, Nat.one_mul, Nat.mul_comm (P / c)]
      -- suppose s = T - 1
      apply Classical.byContradiction
      intro hcon
      have hsT : P * 2 ^ J / c % 2 ^ J = 2 ^ J - 1 := by omega
      rw [hsT] at hQ
      -- A = c*Q + R, Q = T*q + T - 1, P = c*q + r
      have e1 : c * (P * 2 ^ J / c) = c * (2 ^ J * (P / c)) + c * 2 ^ J - c := by
        rw [← hQ, Nat.mul_add, Nat.mul_sub, Nat.mul_one]
        have : c ≤ c * 2 ^ J := Nat.le_mul_of_pos_right c hT
        omega
      have e2 : P * 2 ^ J = c * (2 ^ J * (P / c)) + (P % c) * 2 ^ J := by
        conv => lhs; rw [← hP]
        rw [Nat.add_mul, Nat.mul_assoc, Nat.mul_comm (P / c)]
      have e3 : (P % c) * 2 ^ J + 2 ^ J ≤ c * 2 ^ J := by
        have : (P % c + 1) * 2 ^ J ≤ c * 2 ^ J := Nat.mul_le_mul_right _ hr
        rw [Nat.add_mul, Nat.one_mul] at this
        exact this
      have : c ≤ c * 2 ^ J := Nat.le_mul_of_pos_right c hT
      generalize c * (2 ^ J * (P / c)) = X at *
      generalize c * 2 ^ J = Y at *
      generalize (P % c) * 2 ^ J = Z at *
      generalize P * 2 ^ J % c = R at *
      generalize c * (P * 2 ^ J / c) = W at *
      generalize P * 2 ^ J = A at *
      generalize 2 ^ J = T at *
      omega
  · exact hfloor

end TcVerif
