/-
  The parser with Rust's explicit depth counter (`decodeD`) agrees with the fuel formulation
  (`decode`) and restores the counter on every non-error return.
-/
import TcVerif.Lemmas.RespDecode

namespace TcVerif.Resp

open TcVerif.Gen

theorem elemsD_spec {decD : Nat → List UInt8 → DecodeResult × Nat}
    {dec : List UInt8 → DecodeResult} {D : Nat}
    (h : ∀ d, (decD D d).1 = dec d ∧ ((decD D d).1 ≠ .error → (decD D d).2 = D)) :
    ∀ (c : Nat) (d : List UInt8),
      (elemsD decD c D d).1 = decodeElemsWith dec c d ∧
      ((elemsD decD c D d).1 ≠ .error → (elemsD decD c D d).2 = D)
  | 0, d => by simp [elemsD, decodeElemsWith]
  | c + 1, d => by
    have h1 := h d
    rw [elemsD, decodeElemsWith]
    cases hx : decD D d with
    | mk r dp =>
      rw [hx] at h1
      simp only at h1
      rw [← h1.1]
      cases r with
      | incomplete => simpa using h1.2
      | error => simp
      | ok v m =>
        have hdp : dp = D := h1.2 (by simp)
        subst hdp
        simp only
        have ih := elemsD_spec h c (d.drop m)
        cases hy : elemsD decD c dp (d.drop m) with
        | mk r2 dp2 =>
          rw [hy] at ih
          simp only at ih
          rw [← ih.1]
          cases r2 with
          | incomplete => simpa using ih.2
          | error => simp
          | ok vs k => simpa using ih.2

theorem decodeD_nil (gas depth : Nat) : decodeD gas depth [] = (.incomplete, depth) := by
  rw [decodeD]

theorem decodeD_scalar (gas depth : Nat) (t : UInt8) (r : List UInt8) (ht : t ≠ 42) :
    decodeD gas depth (t :: r) = (decodeScalar t (t :: r), depth) := by
  rw [decodeD, decodeScalar]
  simp only [ht, if_false]
  repeat' split
  all_goals rfl

theorem decodeD_array (gas depth : Nat) (t : UInt8) (r : List UInt8) (ht : t = 42) :
    decodeD gas depth (t :: r) =
      if depth ≥ RESP_MAX_DEPTH then (.error, depth)
      else
        match header RESP_MAX_ARRAY (t :: r) with
        | .incomplete => (.incomplete, depth)
        | .error => (.error, depth)
        | .null n => (.ok (.array []) n, depth)
        | .len n cnt =>
          match gas with
          | 0 => (.error, depth)
          | g + 1 =>
            match elemsD (decodeD g) cnt (depth + 1) ((t :: r).drop n) with
            | (.ok vs m, dp) => (.ok (.array vs) (n + m), dp - 1)
            | (.incomplete, dp) => (.incomplete, dp - 1)
            | (.error, dp) => (.error, dp) := by
  subst ht
  rw [decodeD]
  rfl

theorem decodeD_spec : ∀ (gas depth : Nat) (d : List UInt8), RESP_MAX_DEPTH ≤ depth + gas →
    (decodeD gas depth d).1 = decode (RESP_MAX_DEPTH - depth) d ∧
    ((decodeD gas depth d).1 ≠ .error → (decodeD gas depth d).2 = depth) := by
  intro gas
  induction gas with
  | zero =>
    intro depth d hg
    cases d with
    | nil => simp [decodeD_nil, decode_nil]
    | cons t r =>
      by_cases ht : t = 42
      · have h0 : RESP_MAX_DEPTH - depth = 0 := by omega
        rw [decodeD_array 0 depth t r ht, h0, decode_array_zero t r ht,
          if_pos (by omega)]
        simp
      · rw [decodeD_scalar 0 depth t r ht, decode_scalar _ t r ht]; simp
  | succ g ih =>
    intro depth d hg
    cases d with
    | nil => simp [decodeD_nil, decode_nil]
    | cons t r =>
      by_cases ht : t = 42
      · rw [decodeD_array (g + 1) depth t r ht]
        by_cases hdep : depth ≥ RESP_MAX_DEPTH
        · have h0 : RESP_MAX_DEPTH - depth = 0 := by omega
          rw [h0, decode_array_zero t r ht, if_pos hdep]
          simp
        · have h1 : RESP_MAX_DEPTH - depth = (RESP_MAX_DEPTH - (depth + 1)) + 1 := by omega
          rw [if_neg hdep, h1, decode_array_succ _ t r ht]
          cases hh : header RESP_MAX_ARRAY (t :: r) with
          | incomplete => simp
          | error => simp
          | null n => simp
          | len n cnt =>
            simp only
            have hs := elemsD_spec (decD := decodeD g) (dec := decode (RESP_MAX_DEPTH - (depth + 1)))
              (D := depth + 1) (fun d' => ih (depth + 1) d' (by omega)) cnt ((t :: r).drop n)
            unfold decodeElems
            cases hy : elemsD (decodeD g) cnt (depth + 1) (List.drop n (t :: r)) with
            | mk r2 dp2 =>
              rw [hy] at hs
              simp only at hs
              rw [← hs.1]
              cases r2 with
              | incomplete =>
                have := hs.2 (by simp); subst this; simp
              | error => simp
              | ok vs k =>
                have := hs.2 (by simp); subst this; simp
      · rw [decodeD_scalar _ depth t r ht, decode_scalar _ t r ht]; simp

end TcVerif.Resp
