/-
  A concrete small system used by the non-vacuity examples of C09 / C10 / C11:
  2 clients, capacity 1, one unit request each, a limiter with budget 1.
-/
import TcVerif.Lemmas.ActorProgress
namespace TcVerif.Actor

/-- a toy limiter: the state counts allowed units, budget 1 -/
def toyLim : Limiter Nat Nat Bool where
  step l r := some (if l + r ≤ 1 then (l + r, true) else (l, false))

def toySys : Sys Nat Nat Bool := { lim := toyLim, cap := 1, prog := fun _ => [1] }

/-- client 0 and 1 call; 0 is enqueued; 1 cannot be (queue full: back-pressure); after `proc`, 1 is
    enqueued, then abandons its request; it is processed all the same; 0 gets its reply. -/
def toyLabels : List Label :=
  [.call 0, .call 1, .enq 0, .proc, .enq 1, .cancel 1, .proc, .ret 0]

/-- the run is a run of the LTS, so its final state is reachable and the theorems apply to it -/
theorem toy_reach : ∃ s, Reach toySys 2 0 s ∧ (procLog s.log).length = 2 ∧
    (procLog s.log).map (·.2.2) = [true, false] ∧ s.queue = [] := by
  have hr : run? toySys (init 2 0) toyLabels =
      some (((run? toySys (init 2 0) toyLabels).getD (init 2 0))) := by decide
  exact ⟨_, Reach.run .init (run?_iff.mp hr), by decide, by decide, by decide⟩


end TcVerif.Actor
