/-
  Soft-float lemmas, part 3: `emissionInterval` on positive arguments is the integer quotient,
  whenever `period·10^9` and `count` are both below 2^53 (a domain strictly wider than C18's).
-/
import TcVerif.Lemmas.FloatRne
namespace TcVerif

/-- Nat form: for `0 < c < 2^53`, `0 < p`, `p·10^9 < 2^53` the replica returns `⌊p·10^9 / c⌋`. -/
theorem emissionInterval_nat (c p : Nat) (hc : 0 < c) (hp : 0 < p)
    (hP : p * Gen.NS_PER_SEC < P53) (hc53 : c < P53) :
    emissionInterval (c : Int) (p : Int) = ((p * Gen.NS_PER_SEC / c : Nat) : Int) := by
  unfold emissionInterval
  rw [if_neg (by omega)]
  simp only [Int.toNat_natCast]
  have hns : Gen.NS_PER_SEC ≠ 0 := by decide
  rw [mul_exact p Gen.NS_PER_SEC (by omega) hns hP,
    div_toU64 _ c (Nat.mul_ne_zero (by omega) hns) hP (by omega) hc53]

/-- Int form of `emissionInterval_nat`. -/
theorem emissionInterval_int (c p : Int) (hc : 0 < c) (hp : 0 < p)
    (hP : p * 1000000000 < 9007199254740992) (hc53 : c < 9007199254740992) :
    emissionInterval c p = p * 1000000000 / c := by
  obtain ⟨cn, rfl⟩ := Int.eq_ofNat_of_zero_le (Int.le_of_lt hc)
  obtain ⟨pn, rfl⟩ := Int.eq_ofNat_of_zero_le (Int.le_of_lt hp)
  have hP' : pn * Gen.NS_PER_SEC < P53 := by unfold Gen.NS_PER_SEC P53; omega
  have hc' : cn < P53 := by unfold P53; omega
  rw [emissionInterval_nat cn pn (by omega) (by omega) hP' hc', Int.natCast_ediv, Int.natCast_mul]
  rfl

end TcVerif
