/-
  The sequential fact behind C09's burst corollary: on a fresh key, `N` identical unit requests at
  one instant are allowed exactly `min N B` times (GCRA model, any store, limits in the normal
  domain D of `Lemmas/Arith.lean`).  Proved through the cell/bucket simulation of `BucketSim.lean`.
-/
import TcVerif.Lemmas.ActorGcra
import TcVerif.Lemmas.BucketSim
import TcVerif.Props.C05
namespace TcVerif.Actor
open TcVerif

/-- decisions of the ideal bucket for `n` unit requests at the instant `t` -/
def unitRun (B E t : Int) : Option Bucket → Nat → List Bool
  | _, 0 => []
  | b, n + 1 => (Bucket.step B E b t 1).2.1 :: unitRun B E t (Bucket.step B E b t 1).1 n

theorem unitRun_some (B E t : Int) (hE : 1 ≤ E) (n : Nat) (m : Int) (hm0 : 0 ≤ m) (hmB : m ≤ B) :
    ((unitRun B E t (some ⟨m * E, t⟩) n).filter id).length = min n m.toNat := by
  induction n generalizing m with
  | zero => simp [unitRun]
  | succ n ih =>
    have hle : m * E ≤ B * E := Int.mul_le_mul_of_nonneg_right hmB (by omega)
    have hrefill : Bucket.refill (B * E) (some ⟨m * E, t⟩) t = m * E := by
      simp only [Bucket.refill]; omega
    by_cases h1 : 1 ≤ m
    · have hadm : 1 * E ≤ m * E := Int.mul_le_mul_of_nonneg_right h1 (by omega)
      have hnew : m * E - 1 * E = (m - 1) * E := by rw [Int.sub_mul]
      have hstep : Bucket.step B E (some ⟨m * E, t⟩) t 1 = (some ⟨(m - 1) * E, t⟩, true, ((m - 1) * E) / E) := by
        simp only [Bucket.step, hrefill, hadm, decide_true, if_true, hnew]
      simp only [unitRun, hstep, List.filter_cons, id, if_true, List.length_cons]
      rw [ih (m - 1) (by omega) (by omega)]
      omega
    · have hm : m = 0 := by omega
      subst hm
      have hadm : ¬ (1 * E ≤ 0 * E) := by omega
      have hstep : Bucket.step B E (some ⟨0 * E, t⟩) t 1 = (some ⟨0 * E, t⟩, false, (0 * E) / E) := by
        simp only [Bucket.step, hrefill, hadm, decide_false, Bool.false_eq_true, if_false]
      simp only [unitRun, hstep, List.filter_cons, id, Bool.false_eq_true, if_false]
      rw [ih 0 (by omega) (by omega)]
      omega

theorem unitRun_none (B E t : Int) (hE : 1 ≤ E) (hB : 1 ≤ B) (n : Nat) :
    ((unitRun B E t none n).filter id).length = min n B.toNat := by
  cases n with
  | zero => simp [unitRun]
  | succ n =>
    have hadm : 1 * E ≤ B * E := Int.mul_le_mul_of_nonneg_right hB (by omega)
    have hnew : B * E - 1 * E = (B - 1) * E := by rw [Int.sub_mul]
    have hstep : Bucket.step B E none t 1 = (some ⟨(B - 1) * E, t⟩, true, ((B - 1) * E) / E) := by
      simp only [Bucket.step, Bucket.refill, hadm, decide_true, if_true, hnew]
    simp only [unitRun, hstep, List.filter_cons, id, if_true, List.length_cons]
    rw [unitRun_some B E t hE n (B - 1) (by omega) (by omega)]
    omega

/-- the cell run of `n` copies of one unit request = the bucket's unit run -/
theorem cell_unitRun {ei : Int → Int → Int} {E B : Int} (r0 : Req) (hq : r0.qty = 1)
    (hei : ei r0.count r0.period = E) (hstep : StepD E B r0.now r0) (n : Nat) (c : Cell) (b : Option Bucket)
    (hrel : Rel E B c b r0.now) :
    (runTagged Cell.ops ei c (List.replicate n r0)).map (·.2.allowed) = unitRun B E r0.now b n := by
  induction n generalizing c b with
  | zero => rfl
  | succ n ih =>
    obtain ⟨_, s2, _, _, s5⟩ := cell_bucket_step c b r0.now r0 hstep hrel
    simp only [List.replicate_succ, runTagged, List.map_cons, unitRun, hei]
    rw [hq] at s2 s5
    rw [s2, ih _ _ s5]

theorem monotoneFrom_replicate (r0 : Req) (n : Nat) : MonotoneFrom r0.now (List.replicate n r0) := by
  induction n with
  | zero => trivial
  | succ n ih => exact ⟨Int.le_refl _, ih⟩

/-- **fresh key, one instant**: the sequential GCRA limiter on any empty store allows exactly
    `min N B` of `N` identical unit requests -/
theorem gcra_unit_burst (r0 : Req) (E B : Int) (N : Nat) (st : AnyStore) (hst : st.data = [])
    (hq : r0.qty = 1) (hei : emissionInterval r0.count r0.period = E) (hstep : StepD E B r0.now r0) :
    (((runTagged AnyStore.ops emissionInterval st (List.replicate N r0)).map (·.2)).filter Outcome.allowed).length
      = min N B.toNat := by
  have hproj := C05_projection_to_cell emissionInterval r0.key (List.replicate N r0) r0.now st hst
    (monotoneFrom_replicate r0 N)
  have hall : ∀ r ∈ List.replicate N r0, r.key = r0.key := by
    intro r hr; rw [(List.mem_replicate.mp hr).2]
  rw [runTagged_filter_all AnyStore.ops emissionInterval st _ r0.key hall] at hproj
  have hf : (List.replicate N r0).filter (fun r => r.key = r0.key) = List.replicate N r0 := by
    apply List.filter_eq_self.mpr
    intro r hr; simpa using hall r hr
  rw [hf] at hproj
  rw [hproj]
  have hrun := cell_unitRun (ei := emissionInterval) r0 hq hei hstep N none none (rel_fresh E B r0.now)
  have hcount := unitRun_none B E r0.now hstep.dom.hE hstep.dom.hB N
  rw [← hrun] at hcount
  rw [← hcount]
  simp only [List.filter_map, List.length_map]
  rfl

end TcVerif.Actor
