/-
  What the decoder returns is well-formed (limits, UTF-8, depth), and well-formed values
  round-trip through `encode` / `decode`.
-/
import TcVerif.Lemmas.RespDecode
import TcVerif.Lemmas.RespInt
import TcVerif.Lemmas.RespUtf8

namespace TcVerif.Resp

open TcVerif.Gen

/-! ## parsed values are within the limits -/

theorem decodeLine_simple_wf {d v n} (h : decodeLine .simple d = .ok v n) :
    sizesOk v = true ∧ depth v = 0 := by
  unfold decodeLine at h
  split at h
  · cases h
  · rename_i l m hl
    split at h
    · rename_i hv
      cases h
      simp only [sizesOk, depth, hv, readLine_line_noCRLF hl, Bool.and_self, and_self]
    · cases h

theorem decodeLine_error_wf {d v n} (h : decodeLine .error d = .ok v n) :
    sizesOk v = true ∧ depth v = 0 := by
  unfold decodeLine at h
  split at h
  · cases h
  · rename_i l m hl
    split at h
    · rename_i hv
      cases h
      simp only [sizesOk, depth, hv, readLine_line_noCRLF hl, Bool.and_self, and_self]
    · cases h

theorem decodeInt_wf {d v n} (h : decodeInt d = .ok v n) : sizesOk v = true ∧ depth v = 0 := by
  unfold decodeInt at h
  split at h
  · cases h
  · split at h
    · rename_i k hk
      cases h
      simp only [sizesOk, depth, parseHdrInt_range hk, and_self]
    · cases h

theorem decodeBulk_wf {d v n} (h : decodeBulk d = .ok v n) : sizesOk v = true ∧ depth v = 0 := by
  unfold decodeBulk at h
  split at h
  · cases h
  · cases h
  · cases h; simp only [sizesOk, depth, and_self]
  · rename_i m l hm
    have hb := header_len_bound hm
    split at h
    · cases h
    · simp only at h
      split at h
      · rename_i hv
        cases h
        simp only [sizesOk, depth, hv, Bool.true_and, decide_eq_true_eq, and_true]
        simp only [List.length_take, List.length_drop]
        omega
      · cases h

theorem decodeScalar_wf {t d v n} (h : decodeScalar t d = .ok v n) :
    sizesOk v = true ∧ depth v = 0 := by
  unfold decodeScalar at h
  split at h; exact decodeLine_simple_wf h
  split at h; exact decodeLine_error_wf h
  split at h; exact decodeInt_wf h
  split at h; exact decodeBulk_wf h
  cases h

theorem decodeElemsWith_wf {dec} {f : Nat}
    (hd : ∀ d v n, dec d = .ok v n → sizesOk v = true ∧ depth v ≤ f) :
    ∀ (c : Nat) (d : List UInt8) (vs : List Value) (m : Nat),
      decodeElemsWith dec c d = .ok vs m → sizesOkList vs = true ∧ depthList vs ≤ f
  | 0, d, vs, m, h => by
    simp only [decodeElemsWith] at h
    cases h; simp [sizesOkList, depthList]
  | c + 1, d, vs, m, h => by
    simp only [decodeElemsWith] at h
    split at h
    · rename_i v k hv
      have hb := hd d v k hv
      split at h
      · rename_i ws j hws
        have ih := decodeElemsWith_wf hd c (d.drop k) ws j hws
        cases h
        simp only [sizesOkList, depthList, hb.1, ih.1, Bool.and_self, true_and]
        omega
      · cases h
      · cases h
    · cases h
    · cases h

theorem decode_wf : ∀ (fuel : Nat) (d : List UInt8) (v : Value) (n : Nat),
    decode fuel d = .ok v n → sizesOk v = true ∧ depth v ≤ fuel := by
  intro fuel
  induction fuel with
  | zero =>
    intro d v n h
    cases d with
    | nil => rw [decode_nil] at h; cases h
    | cons t r =>
      by_cases ht : t = 42
      · rw [decode_array_zero t r ht] at h; cases h
      · rw [decode_scalar 0 t r ht] at h
        have := decodeScalar_wf h; exact ⟨this.1, by omega⟩
  | succ f ih =>
    intro d v n h
    cases d with
    | nil => rw [decode_nil] at h; cases h
    | cons t r =>
      by_cases ht : t = 42
      · rw [decode_array_succ f t r ht] at h
        split at h
        · cases h
        · cases h
        · cases h; simp [sizesOk, sizesOkList, depth, depthList]
        · rename_i m c hm
          have hb := header_len_bound hm
          split at h
          · rename_i vs j hvs
            unfold decodeElems at hvs
            have h1 := decodeElemsWith_wf ih c _ vs j hvs
            have h2 := decodeElemsWith_bound (decode_ok f) c _ vs j hvs
            cases h
            simp only [sizesOk, depth, h1.1, Bool.and_true, decide_eq_true_eq]
            omega
          · cases h
          · cases h
      · rw [decode_scalar _ t r ht] at h
        have := decodeScalar_wf h; exact ⟨this.1, by omega⟩

/-! ## headers beyond the limits are rejected -/

theorem header_reject {mx : Nat} {d l n k} (hl : readLine d = some (l, n))
    (hk : parseHdrInt (l.drop 1) = some k) (hbad : k < -1 ∨ k > (mx : Int)) :
    header mx d = .error := by
  unfold header
  rw [hl]; simp only [hk]
  have : k ≠ -1 := by omega
  simp only [this, if_false]
  have : k < 0 ∨ k > (mx : Int) := by omega
  simp only [this, if_true]

/-! ## round trip -/

theorem header_frame (mx : Nat) (t : UInt8) (k : Nat) (rest : List UInt8) (ht : t ≠ 13)
    (hk : k ≤ mx) (hk2 : k ≤ I64_MAX_NAT) :
    header mx (t :: (renderNat k ++ crlf) ++ rest) = .len ((renderNat k).length + 3) k := by
  have hb := renderNat_bytes k
  have h1 : noCRLF (renderNat k) = true := noCRLF_no_cr _ (fun c hc => (hb c hc).2.1)
  have h2 : validUtf8 (renderNat k) = true := validUtf8_ascii _ (fun c hc => (hb c hc).1)
  unfold header
  rw [readLine_frame t (renderNat k) rest ht h1]
  simp only [List.drop_succ_cons, List.drop_zero, parseHdrInt, h2, if_true,
    parseI64_renderNat hk2]
  have : ¬ ((k : Int) = -1) := by omega
  simp only [this, if_false]
  have : ¬ ((k : Int) < 0 ∨ (k : Int) > (mx : Int)) := by omega
  simp only [this, if_false, Int.toNat_natCast]

theorem decode_cons_scalar (fuel : Nat) (t : UInt8) (r x : List UInt8) (ht : t ≠ 42) :
    decode fuel (t :: r ++ x) = decodeScalar t (t :: r ++ x) :=
  decode_scalar fuel t (r ++ x) ht

theorem roundtrip_simple (fuel : Nat) (s x : List UInt8) (h : sizesOk (.simple s) = true) :
    decode fuel (encode (.simple s) ++ x) = .ok (.simple s) (encode (.simple s)).length := by
  simp only [sizesOk, Bool.and_eq_true] at h
  simp only [encode]
  rw [decode_cons_scalar fuel 43 _ x (by decide)]
  simp only [decodeScalar, if_true, decodeLine]
  rw [readLine_frame 43 s x (by decide) h.2]
  simp [h.1, crlf]

theorem roundtrip_error (fuel : Nat) (s x : List UInt8) (h : sizesOk (.error s) = true) :
    decode fuel (encode (.error s) ++ x) = .ok (.error s) (encode (.error s)).length := by
  simp only [sizesOk, Bool.and_eq_true] at h
  simp only [encode]
  rw [decode_cons_scalar fuel 45 _ x (by decide)]
  have e : decodeScalar 45 (45 :: (s ++ crlf) ++ x) = decodeLine .error (45 :: (s ++ crlf) ++ x) := by
    unfold decodeScalar; rw [if_neg (by decide), if_pos rfl]
  rw [e, decodeLine, readLine_frame 45 s x (by decide) h.2]
  simp [h.1, crlf]

theorem roundtrip_int (fuel : Nat) (n : Int) (x : List UInt8) (h : sizesOk (.int n) = true) :
    decode fuel (encode (.int n) ++ x) = .ok (.int n) (encode (.int n)).length := by
  simp only [sizesOk] at h
  simp only [encode]
  rw [decode_cons_scalar fuel 58 _ x (by decide)]
  have e : decodeScalar 58 (58 :: (renderInt n ++ crlf) ++ x)
      = decodeInt (58 :: (renderInt n ++ crlf) ++ x) := by
    unfold decodeScalar; rw [if_neg (by decide), if_neg (by decide), if_pos rfl]
  have hb := renderInt_bytes n
  have h1 : noCRLF (renderInt n) = true := noCRLF_no_cr _ (fun c hc => (hb c hc).2.1)
  have h2 : validUtf8 (renderInt n) = true := validUtf8_ascii _ (fun c hc => (hb c hc).1)
  rw [e, decodeInt, readLine_frame 58 _ x (by decide) h1]
  simp [parseHdrInt, h2, parseI64_renderInt h, crlf]

theorem scalar36 (d : List UInt8) : decodeScalar 36 d = decodeBulk d := by
  unfold decodeScalar
  rw [if_neg (by decide), if_neg (by decide), if_neg (by decide), if_pos rfl]

theorem roundtrip_null (fuel : Nat) (x : List UInt8) :
    decode fuel (encode (.bulk none) ++ x) = .ok (.bulk none) (encode (.bulk none)).length := by
  simp only [encode]
  have e : ([36, 45, 49, 13, 10] : List UInt8) ++ x = 36 :: ([45, 49] ++ crlf) ++ x := rfl
  rw [e, decode_cons_scalar fuel 36 _ x (by decide), scalar36, decodeBulk]
  have hh : header RESP_MAX_BULK (36 :: ([45, 49] ++ crlf) ++ x) = .null 5 := by
    unfold header
    rw [readLine_frame 36 [45, 49] x (by decide) (by decide)]
    rfl
  rw [hh]; rfl

theorem roundtrip_bulk (fuel : Nat) (s x : List UInt8) (h : sizesOk (.bulk (some s)) = true) :
    decode fuel (encode (.bulk (some s)) ++ x)
      = .ok (.bulk (some s)) (encode (.bulk (some s))).length := by
  simp only [sizesOk, Bool.and_eq_true, decide_eq_true_eq] at h
  simp only [encode]
  have e : 36 :: (renderNat s.length ++ crlf ++ (s ++ crlf)) ++ x
      = 36 :: (renderNat s.length ++ crlf) ++ (s ++ (crlf ++ x)) := by simp
  rw [e, decode_cons_scalar fuel 36 _ _ (by decide), scalar36, decodeBulk]
  rw [header_frame RESP_MAX_BULK 36 s.length _ (by decide) h.2
    (by have := h.2; simp only [RESP_MAX_BULK, I64_MAX_NAT] at *; omega)]
  simp only
  have hlen : (36 :: (renderNat s.length ++ crlf) : List UInt8).length
      = (renderNat s.length).length + 3 := by simp [crlf]
  have hd : List.drop ((renderNat s.length).length + 3)
      (36 :: (renderNat s.length ++ crlf) ++ (s ++ (crlf ++ x))) = s ++ (crlf ++ x) := by
    rw [← hlen]; exact List.drop_left
  rw [hd, List.take_left]
  have : ¬ (36 :: (renderNat s.length ++ crlf) ++ (s ++ (crlf ++ x))).length
      < (renderNat s.length).length + 3 + s.length + 2 := by
    simp [crlf]; omega
  rw [if_neg this]
  simp [h.1, crlf]; omega

mutual
theorem roundtrip : ∀ (v : Value) (fuel : Nat), sizesOk v = true → depth v ≤ fuel →
    ∀ x, decode fuel (encode v ++ x) = .ok v (encode v).length
  | .simple s, fuel, h, _, x => roundtrip_simple fuel s x h
  | .error s, fuel, h, _, x => roundtrip_error fuel s x h
  | .int n, fuel, h, _, x => roundtrip_int fuel n x h
  | .bulk none, fuel, _, _, x => roundtrip_null fuel x
  | .bulk (some s), fuel, h, _, x => roundtrip_bulk fuel s x h
  | .array xs, fuel, h, hd, x => by
    simp only [sizesOk, Bool.and_eq_true, decide_eq_true_eq] at h
    simp only [depth] at hd
    obtain ⟨f, rfl⟩ : ∃ f, fuel = f + 1 := ⟨fuel - 1, by omega⟩
    simp only [encode]
    have e : 42 :: (renderNat xs.length ++ crlf ++ encodeList xs) ++ x
        = 42 :: ((renderNat xs.length ++ crlf) ++ (encodeList xs ++ x)) := by simp
    have e2 : (42 : UInt8) :: ((renderNat xs.length ++ crlf) ++ (encodeList xs ++ x))
        = 42 :: (renderNat xs.length ++ crlf) ++ (encodeList xs ++ x) := rfl
    rw [e, decode_array_succ f 42 _ rfl, e2]
    rw [header_frame RESP_MAX_ARRAY 42 xs.length _ (by decide) h.1
      (by have := h.1; simp only [RESP_MAX_ARRAY, I64_MAX_NAT] at *; omega)]
    simp only
    have hlen : (42 :: (renderNat xs.length ++ crlf) : List UInt8).length
        = (renderNat xs.length).length + 3 := by simp [crlf]
    have hdrop : List.drop ((renderNat xs.length).length + 3)
        (42 :: (renderNat xs.length ++ crlf) ++ (encodeList xs ++ x)) = encodeList xs ++ x := by
      rw [← hlen]; exact List.drop_left
    rw [hdrop]
    unfold decodeElems
    rw [roundtripList xs f h.2 (by omega) x]
    simp [crlf]; omega
theorem roundtripList : ∀ (vs : List Value) (fuel : Nat), sizesOkList vs = true →
    depthList vs ≤ fuel →
    ∀ x, decodeElemsWith (decode fuel) vs.length (encodeList vs ++ x)
      = .ok vs (encodeList vs).length
  | [], _, _, _, _ => by simp [decodeElemsWith, encodeList]
  | v :: vs, fuel, h, hd, x => by
    simp only [sizesOkList, Bool.and_eq_true] at h
    simp only [depthList] at hd
    simp only [encodeList, List.length_cons, decodeElemsWith, List.append_assoc]
    rw [roundtrip v fuel h.1 (by omega) (encodeList vs ++ x)]
    simp only [List.drop_left]
    rw [roundtripList vs fuel h.2 (by omega) x]
    simp
end

/-! ## membership -/

theorem sizesOkList_mem : ∀ {xs : List Value}, sizesOkList xs = true → ∀ x ∈ xs, sizesOk x = true
  | [], _, x, hx => by cases hx
  | y :: ys, h, x, hx => by
    simp only [sizesOkList, Bool.and_eq_true] at h
    simp only [List.mem_cons] at hx
    rcases hx with rfl | hx
    · exact h.1
    · exact sizesOkList_mem h.2 x hx

theorem depthList_mem : ∀ (xs : List Value), ∀ x ∈ xs, depth x ≤ depthList xs
  | [], x, hx => by cases hx
  | y :: ys, x, hx => by
    simp only [depthList]
    simp only [List.mem_cons] at hx
    rcases hx with rfl | hx
    · omega
    · have := depthList_mem ys x hx; omega

/-! ## nesting beyond the limit -/

theorem nested_error : ∀ (f : Nat) (x : List UInt8),
    decode f ((List.replicate f b!"*1\r\n").flatten ++ 42 :: x) = .error
  | 0, x => decode_array_zero 42 x rfl
  | f + 1, x => by
    have ih := nested_error f x
    have e : (List.replicate (f + 1) b!"*1\r\n").flatten ++ 42 :: x
        = 42 :: (renderNat 1 ++ crlf) ++ ((List.replicate f b!"*1\r\n").flatten ++ 42 :: x) := by
      simp only [List.replicate_succ, List.flatten_cons, List.append_assoc]; rfl
    rw [e]
    show decode (f + 1) (42 :: ((renderNat 1 ++ crlf) ++ _)) = _
    rw [decode_array_succ f 42 _ rfl]
    have e2 : ∀ r : List UInt8, (42 : UInt8) :: ((renderNat 1 ++ crlf) ++ r)
        = 42 :: (renderNat 1 ++ crlf) ++ r := fun _ => rfl
    rw [e2, header_frame RESP_MAX_ARRAY 42 1 _ (by decide) (by decide) (by decide)]
    simp only
    have hdrop : ∀ r : List UInt8, List.drop ((renderNat 1).length + 3)
        (42 :: (renderNat 1 ++ crlf) ++ r) = r := fun _ => rfl
    rw [hdrop]
    unfold decodeElems
    simp only [decodeElemsWith, ih]

end TcVerif.Resp
