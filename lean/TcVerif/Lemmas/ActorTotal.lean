/-
  Invariants of the actor LTS, part 4: a total limiter never kills the actor; what happens
  after the actor died; the probe run.
-/
import TcVerif.Lemmas.ActorProgress
namespace TcVerif.Actor
variable {L Rq Rs : Type}
variable {M : Sys L Rq Rs} {n : Nat} {l0 : L} {s : State L Rq Rs}

/-- the library call never panics (the real code's C08) -/
def Total (lim : Limiter L Rq Rs) : Prop := ∀ l r, lim.step l r ≠ none

theorem inv_alive_of_total (htot : Total M.lim) (h : Reach M n l0 s) : s.alive = true := by
  induction h with
  | init => rfl
  | step hs hst ih =>
    cases hst
    case actorPanic id r q ha hq hs' => exact absurd hs' (htot _ _)
    all_goals exact ih

theorem findReply_append_new {id : Id} {rs : Rs} {l : List (Id × Rs)} (hn : ∀ o, (id, o) ∉ l) :
    findReply id (l ++ [(id, rs)]) = some rs := by
  induction l with
  | nil => simp [findReply]
  | cons p ps ih =>
    simp only [List.cons_append, findReply]
    split
    · rename_i hp
      obtain ⟨a, b⟩ := p
      simp only at hp
      subst hp
      exact absurd List.mem_cons_self (hn b)
    · exact ih (fun o ho => hn o (List.mem_cons_of_mem _ ho))

/-- a client that is idle at `pc` has no stale slot for request `(c, pc)` -/
theorem no_stale_slot (h : Reach M n l0 s) {c pc : Nat} (hc : s.clients[c]? = some ⟨pc, .idle⟩) :
    (∀ o, ((c, pc), o) ∉ s.replies) ∧ (c, pc) ∉ s.abandoned := by
  constructor
  · intro o ho
    obtain ⟨r, hp⟩ := inv_replies h _ _ ho
    obtain ⟨k, hk⟩ := getElem?_of_mem hp
    obtain ⟨j, _, hj⟩ := proc_after_enq h hk
    obtain ⟨i, _, hi⟩ := enq_after_call h hj
    have := inv_call h (mem_of_getElem? hi) hc
    simp at this
  · intro ha
    have := inv_abandoned h _ _ ha _ hc
    simp at this

theorem dead_step {s0 s1 : State L Rq Rs} {lb : Label} (hd : s0.alive = false) (hst : Step M s0 lb s1) :
    s1.alive = false ∧ procLog s1.log = procLog s0.log ∧ enqLog s1.log = enqLog s0.log ∧
    s1.lim = s0.lim ∧ s1.queue = s0.queue ∧ ∃ e, s1.log = s0.log ++ [e] := by
  cases hst
  case enq c pc r hc hr hcap ha => rw [hd] at ha; cases ha
  case proc id r q l' rs ha hq hs' => rw [hd] at ha; cases ha
  case actorPanic id r q ha hq hs' => rw [hd] at ha; cases ha
  all_goals exact ⟨hd, by simp, by simp, rfl, rfl, _, rfl⟩

/-- once the actor is dead, nothing is enqueued or processed any more -/
theorem dead_run {s s' : State L Rq Rs} {lbs : List Label} (hd : s.alive = false) (hr : Run M s lbs s') :
    s'.alive = false ∧ procLog s'.log = procLog s.log ∧ enqLog s'.log = enqLog s.log ∧ s'.lim = s.lim ∧
    s'.queue = s.queue ∧ ∃ ext, s'.log = s.log ++ ext := by
  induction hr with
  | nil => exact ⟨hd, rfl, rfl, rfl, rfl, [], by simp⟩
  | @cons s0 s1 s2 lb lbs hst _ ih =>
    obtain ⟨k1, k2, k3, k4, k5, e, k6⟩ := dead_step hd hst
    obtain ⟨i1, i2, i3, i4, i5, ext, i6⟩ := ih k1
    exact ⟨i1, i2.trans k2, i3.trans k3, i4.trans k4, i5.trans k5, e :: ext, by rw [i6, k6]; simp⟩

end TcVerif.Actor
