/-
  Structural lemmas about the decoder: consumed bounds, prefix stability
  (`decode (d ++ x) = decode d` unless `decode d = incomplete`), and locality
  (`decode d = ok v n` only depends on the first `n` bytes).
-/
import TcVerif.Lemmas.RespLine

namespace TcVerif.Resp

open TcVerif.Gen

/-- properties of an element decoder that the array loop preserves -/
structure DecOK (dec : List UInt8 → DecodeResult) : Prop where
  bound : ∀ d v n, dec d = .ok v n → 1 ≤ n ∧ n ≤ d.length
  append : ∀ d x, dec d ≠ .incomplete → dec (d ++ x) = dec d
  take : ∀ d v n k, dec d = .ok v n → n ≤ k → dec (d.take k) = .ok v n

/-! ### line frames -/

theorem decodeLine_bound {mk d v n} (h : decodeLine mk d = .ok v n) : 1 ≤ n ∧ n ≤ d.length := by
  unfold decodeLine at h
  split at h
  · cases h
  · rename_i l m hl
    have := readLine_bound hl
    split at h
    · cases h; omega
    · cases h

theorem decodeLine_append {mk d} (x) (h : decodeLine mk d ≠ .incomplete) :
    decodeLine mk (d ++ x) = decodeLine mk d := by
  unfold decodeLine at h ⊢
  split at h
  · exact absurd rfl h
  · rename_i l m hl
    rw [readLine_append x hl]

theorem decodeLine_take {mk d v n} (k) (h : decodeLine mk d = .ok v n) (hk : n ≤ k) :
    decodeLine mk (d.take k) = .ok v n := by
  unfold decodeLine at h ⊢
  split at h
  · cases h
  · rename_i l m hl
    have hm : m = n := by
      split at h
      · cases h; rfl
      · cases h
    subst hm
    rw [readLine_take k hl hk]; exact h

theorem decodeInt_bound {d v n} (h : decodeInt d = .ok v n) : 1 ≤ n ∧ n ≤ d.length := by
  unfold decodeInt at h
  split at h
  · cases h
  · rename_i l m hl
    have := readLine_bound hl
    split at h
    · cases h; omega
    · cases h

theorem decodeInt_append {d} (x) (h : decodeInt d ≠ .incomplete) :
    decodeInt (d ++ x) = decodeInt d := by
  unfold decodeInt at h ⊢
  split at h
  · exact absurd rfl h
  · rename_i l m hl
    rw [readLine_append x hl]

theorem decodeInt_take {d v n} (k) (h : decodeInt d = .ok v n) (hk : n ≤ k) :
    decodeInt (d.take k) = .ok v n := by
  unfold decodeInt at h ⊢
  split at h
  · cases h
  · rename_i l m hl
    have hm : m = n := by
      split at h
      · cases h; rfl
      · cases h
    subst hm
    rw [readLine_take k hl hk]; exact h

/-! ### headers -/

theorem header_null_bound {mx d n} (h : header mx d = .null n) : 2 ≤ n ∧ n ≤ d.length := by
  unfold header at h
  split at h
  · cases h
  · rename_i l m hl
    have := readLine_bound hl
    split at h
    · cases h
    · split at h
      · cases h; omega
      · split at h <;> cases h

theorem header_len_bound {mx d n k} (h : header mx d = .len n k) :
    2 ≤ n ∧ n ≤ d.length ∧ k ≤ mx := by
  unfold header at h
  split at h
  · cases h
  · rename_i l m hl
    have := readLine_bound hl
    split at h
    · cases h
    · split at h
      · cases h
      · split at h
        · cases h
        · cases h; omega

theorem header_append {mx d} (x) (h : header mx d ≠ .incomplete) :
    header mx (d ++ x) = header mx d := by
  unfold header at h ⊢
  split at h
  · exact absurd rfl h
  · rename_i l m hl
    rw [readLine_append x hl]

theorem header_take {mx d} (k) (n) (hn : header mx d = .null n ∨ ∃ c, header mx d = .len n c)
    (hk : n ≤ k) : header mx (d.take k) = header mx d := by
  unfold header at hn ⊢
  split at hn
  · rcases hn with hn | ⟨c, hn⟩ <;> cases hn
  · rename_i l m hl
    have hm : m = n := by
      split at hn
      · rcases hn with hn | ⟨c, hn⟩ <;> cases hn
      · split at hn
        · rcases hn with hn | ⟨c, hn⟩
          · cases hn; rfl
          · cases hn
        · split at hn
          · rcases hn with hn | ⟨c, hn⟩ <;> cases hn
          · rcases hn with hn | ⟨c, hn⟩
            · cases hn
            · cases hn; rfl
    subst hm
    rw [readLine_take k hl hk]

/-! ### bulk strings -/

theorem decodeBulk_bound {d v n} (h : decodeBulk d = .ok v n) : 1 ≤ n ∧ n ≤ d.length := by
  unfold decodeBulk at h
  split at h
  · cases h
  · cases h
  · rename_i m hm
    have := header_null_bound hm
    cases h; omega
  · rename_i m l hm
    have := header_len_bound hm
    split at h
    · cases h
    · simp only at h
      split at h
      · cases h; omega
      · cases h

theorem decodeBulk_append {d} (x) (h : decodeBulk d ≠ .incomplete) :
    decodeBulk (d ++ x) = decodeBulk d := by
  unfold decodeBulk at h ⊢
  split at h
  · exact absurd rfl h
  · rename_i hm
    rw [header_append x (by rw [hm]; simp), hm]
  · rename_i m hm
    rw [header_append x (by rw [hm]; simp), hm]
  · rename_i m l hm
    have hb := header_len_bound hm
    rw [header_append x (by rw [hm]; simp), hm]
    simp only
    split at h
    · exact absurd rfl h
    · rename_i hlen
      have : ¬ (d ++ x).length < m + l + 2 := by
        simp only [List.length_append]; omega
      rw [if_neg this, if_neg hlen]
      have e : List.take l (List.drop m (d ++ x)) = List.take l (List.drop m d) := by
        rw [List.drop_append_of_le_length (by omega)]
        rw [List.take_append_of_le_length (by simp only [List.length_drop]; omega)]
      rw [e]

theorem decodeBulk_take {d v n} (k) (h : decodeBulk d = .ok v n) (hk : n ≤ k) :
    decodeBulk (d.take k) = .ok v n := by
  unfold decodeBulk at h ⊢
  split at h
  · cases h
  · cases h
  · rename_i m hm
    have hmn : m = n := by cases h; rfl
    subst hmn
    rw [header_take k m (Or.inl hm) hk, hm]; exact h
  · rename_i m l hm
    have hb := header_len_bound hm
    split at h
    · cases h
    · rename_i hlen
      simp only at h
      have hn : n = m + l + 2 := by
        split at h
        · cases h; rfl
        · cases h
      rw [header_take k m (Or.inr ⟨l, hm⟩) (by omega), hm]
      simp only
      have : ¬ (d.take k).length < m + l + 2 := by
        simp only [List.length_take]; omega
      rw [if_neg this]
      have e : List.take l (List.drop m (List.take k d)) = List.take l (List.drop m d) := by
        rw [List.drop_take, List.take_take]
        congr 1; omega
      rw [e]; exact h

/-! ### the element loop over an arbitrary good element decoder -/

theorem decodeElemsWith_bound {dec} (hd : DecOK dec) :
    ∀ (c : Nat) (d : List UInt8) (vs : List Value) (m : Nat),
      decodeElemsWith dec c d = .ok vs m → m ≤ d.length ∧ vs.length = c ∧ c ≤ m
  | 0, d, vs, m, h => by
    simp only [decodeElemsWith] at h
    cases h; simp
  | c + 1, d, vs, m, h => by
    simp only [decodeElemsWith] at h
    split at h
    · rename_i v k hv
      have hb := hd.bound d v k hv
      split at h
      · rename_i ws j hws
        have ih := decodeElemsWith_bound hd c (d.drop k) ws j hws
        cases h
        simp only [List.length_drop, List.length_cons] at ih ⊢
        omega
      · cases h
      · cases h
    · cases h
    · cases h

theorem decodeElemsWith_append {dec} (hd : DecOK dec) (x : List UInt8) :
    ∀ (c : Nat) (d : List UInt8), decodeElemsWith dec c d ≠ .incomplete →
      decodeElemsWith dec c (d ++ x) = decodeElemsWith dec c d
  | 0, d, _ => by simp only [decodeElemsWith]
  | c + 1, d, h => by
    simp only [decodeElemsWith] at h ⊢
    split at h
    · rename_i v k hv
      have hb := hd.bound d v k hv
      rw [hd.append d x (by rw [hv]; simp), hv]
      simp only
      rw [List.drop_append_of_le_length hb.2]
      have : decodeElemsWith dec c (d.drop k) ≠ .incomplete := by
        intro hc; rw [hc] at h; exact h rfl
      rw [decodeElemsWith_append hd x c (d.drop k) this]
    · exact absurd rfl h
    · rename_i he
      rw [hd.append d x (by rw [he]; simp), he]

theorem decodeElemsWith_take {dec} (hd : DecOK dec) :
    ∀ (c : Nat) (d : List UInt8) (vs : List Value) (m k : Nat),
      decodeElemsWith dec c d = .ok vs m → m ≤ k →
      decodeElemsWith dec c (d.take k) = .ok vs m
  | 0, d, vs, m, k, h, _ => by
    simp only [decodeElemsWith] at h ⊢; exact h
  | c + 1, d, vs, m, k, h, hk => by
    simp only [decodeElemsWith] at h ⊢
    split at h
    · rename_i v j hv
      have hb := hd.bound d v j hv
      split at h
      · rename_i ws i hws
        cases h
        rw [hd.take d v j k hv (by omega)]
        simp only
        rw [List.drop_take]
        rw [decodeElemsWith_take hd c (d.drop j) ws i (k - j) hws (by omega)]
      · cases h
      · cases h
    · cases h
    · cases h

/-! ### the full decoder -/

/-- dispatch for the four non-recursive frame kinds -/
def decodeScalar (t : UInt8) (d : List UInt8) : DecodeResult :=
  if t = 43 then decodeLine .simple d
  else if t = 45 then decodeLine .error d
  else if t = 58 then decodeInt d
  else if t = 36 then decodeBulk d
  else .error

theorem decodeScalar_bound {t d v n} (h : decodeScalar t d = .ok v n) : 1 ≤ n ∧ n ≤ d.length := by
  unfold decodeScalar at h
  split at h; exact decodeLine_bound h
  split at h; exact decodeLine_bound h
  split at h; exact decodeInt_bound h
  split at h; exact decodeBulk_bound h
  cases h

theorem decodeScalar_append {t d} (x) (h : decodeScalar t d ≠ .incomplete) :
    decodeScalar t (d ++ x) = decodeScalar t d := by
  unfold decodeScalar at h ⊢
  split
  · rename_i c; rw [if_pos c] at h; exact decodeLine_append x h
  rename_i c; rw [if_neg c] at h
  split
  · rename_i c; rw [if_pos c] at h; exact decodeLine_append x h
  rename_i c; rw [if_neg c] at h
  split
  · rename_i c; rw [if_pos c] at h; exact decodeInt_append x h
  rename_i c; rw [if_neg c] at h
  split
  · rename_i c; rw [if_pos c] at h; exact decodeBulk_append x h
  rfl

theorem decodeScalar_take {t d v n} (k) (h : decodeScalar t d = .ok v n) (hk : n ≤ k) :
    decodeScalar t (d.take k) = .ok v n := by
  unfold decodeScalar at h ⊢
  split
  · rename_i c; rw [if_pos c] at h; exact decodeLine_take k h hk
  rename_i c; rw [if_neg c] at h
  split
  · rename_i c; rw [if_pos c] at h; exact decodeLine_take k h hk
  rename_i c; rw [if_neg c] at h
  split
  · rename_i c; rw [if_pos c] at h; exact decodeInt_take k h hk
  rename_i c; rw [if_neg c] at h
  split
  · rename_i c; rw [if_pos c] at h; exact decodeBulk_take k h hk
  rename_i c; rw [if_neg c] at h; cases h

theorem decode_nil (fuel : Nat) : decode fuel [] = .incomplete := by
  cases fuel <;> rfl

theorem decode_array_zero (t : UInt8) (r : List UInt8) (ht : t = 42) :
    decode 0 (t :: r) = .error := by
  subst ht; rfl

theorem decode_array_succ (f : Nat) (t : UInt8) (r : List UInt8) (ht : t = 42) :
    decode (f + 1) (t :: r) =
      match header RESP_MAX_ARRAY (t :: r) with
      | .incomplete => .incomplete
      | .error => .error
      | .null n => .ok (.array []) n
      | .len n cnt =>
        match decodeElems f cnt ((t :: r).drop n) with
        | .ok vs m => .ok (.array vs) (n + m)
        | .incomplete => .incomplete
        | .error => .error := by
  subst ht; rfl

/-- the equations of the (conceptually mutual) pair `decode` / `decodeElems` -/
theorem decodeElems_zero (fuel : Nat) (d : List UInt8) : decodeElems fuel 0 d = .ok [] 0 := rfl

theorem decodeElems_succ (fuel c : Nat) (d : List UInt8) :
    decodeElems fuel (c + 1) d =
      match decode fuel d with
      | .ok v m =>
        match decodeElems fuel c (d.drop m) with
        | .ok vs k => .ok (v :: vs) (m + k)
        | .incomplete => .incomplete
        | .error => .error
      | .incomplete => .incomplete
      | .error => .error := rfl

theorem decode_scalar (fuel : Nat) (t : UInt8) (r : List UInt8) (ht : t ≠ 42) :
    decode fuel (t :: r) = decodeScalar t (t :: r) := by
  rw [decode.eq_def, decodeScalar]; simp [ht]

/-- array frame at `fuel + 1`, given that the element decoder at `fuel` is good -/
theorem decode_array_bound {f t r v n} (ih : DecOK (decode f)) (ht : t = 42)
    (h : decode (f + 1) (t :: r) = .ok v n) : 1 ≤ n ∧ n ≤ (t :: r).length := by
  rw [decode_array_succ f t r ht] at h
  split at h
  · cases h
  · cases h
  · rename_i m hm
    have := header_null_bound hm
    cases h; omega
  · rename_i m c hm
    have hb := header_len_bound hm
    split at h
    · rename_i vs j hvs
      have := decodeElemsWith_bound ih c _ vs j hvs
      cases h
      simp only [List.length_drop] at this
      omega
    · cases h
    · cases h

theorem decode_array_append {f t r} (x) (ih : DecOK (decode f)) (ht : t = 42)
    (h : decode (f + 1) (t :: r) ≠ .incomplete) :
    decode (f + 1) (t :: r ++ x) = decode (f + 1) (t :: r) := by
  show decode (f + 1) (t :: (r ++ x)) = _
  rw [decode_array_succ f t r ht] at h ⊢
  rw [decode_array_succ f t (r ++ x) ht]
  have e : t :: (r ++ x) = (t :: r) ++ x := rfl
  rw [e]
  split at h
  · exact absurd rfl h
  · rename_i hm
    rw [header_append x (by rw [hm]; simp), hm]
  · rename_i m hm
    rw [header_append x (by rw [hm]; simp), hm]
  · rename_i m c hm
    have hb := header_len_bound hm
    rw [header_append x (by rw [hm]; simp), hm]
    simp only
    rw [List.drop_append_of_le_length hb.2.1]
    have : decodeElems f c (List.drop m (t :: r)) ≠ .incomplete := by
      intro hc; rw [hc] at h; exact h rfl
    unfold decodeElems at this ⊢
    rw [decodeElemsWith_append ih x c _ this]

theorem decode_array_take {f t r v n} (k) (ih : DecOK (decode f)) (ht : t = 42)
    (h : decode (f + 1) (t :: r) = .ok v n) (hk : n ≤ k) :
    decode (f + 1) ((t :: r).take k) = .ok v n := by
  have hn := (decode_array_bound ih ht h).1
  obtain ⟨k', rfl⟩ : ∃ k', k = k' + 1 := ⟨k - 1, by omega⟩
  have e : (t :: r).take (k' + 1) = t :: r.take k' := rfl
  rw [decode_array_succ f t r ht] at h
  rw [e, decode_array_succ f t _ ht, ← e]
  split at h
  · cases h
  · cases h
  · rename_i m hm
    have hmn : m = n := by cases h; rfl
    subst hmn
    rw [header_take _ m (Or.inl hm) hk, hm]; exact h
  · rename_i m c hm
    have hb := header_len_bound hm
    split at h
    · rename_i vs j hvs
      cases h
      rw [header_take _ m (Or.inr ⟨c, hm⟩) (by omega), hm]
      simp only
      rw [List.drop_take]
      unfold decodeElems at hvs ⊢
      rw [decodeElemsWith_take ih c _ vs j (k' + 1 - m) hvs (by omega)]
    · cases h
    · cases h

theorem decode_ok : ∀ (fuel : Nat), DecOK (decode fuel) := by
  intro fuel
  induction fuel with
  | zero =>
    refine ⟨?_, ?_, ?_⟩
    · intro d v n h
      cases d with
      | nil => rw [decode_nil] at h; cases h
      | cons t r =>
        by_cases ht : t = 42
        · rw [decode_array_zero t r ht] at h; cases h
        · rw [decode_scalar 0 t r ht] at h; exact decodeScalar_bound h
    · intro d x h
      cases d with
      | nil => rw [decode_nil] at h; exact absurd rfl h
      | cons t r =>
        by_cases ht : t = 42
        · rw [decode_array_zero t r ht]; exact decode_array_zero t (r ++ x) ht
        · rw [decode_scalar 0 t r ht] at h ⊢
          show decode 0 (t :: (r ++ x)) = _
          rw [decode_scalar 0 t (r ++ x) ht]
          exact decodeScalar_append x h
    · intro d v n k h hk
      cases d with
      | nil => rw [decode_nil] at h; cases h
      | cons t r =>
        by_cases ht : t = 42
        · rw [decode_array_zero t r ht] at h; cases h
        · rw [decode_scalar 0 t r ht] at h
          have hn := (decodeScalar_bound h).1
          obtain ⟨k', rfl⟩ : ∃ k', k = k' + 1 := ⟨k - 1, by omega⟩
          have e : (t :: r).take (k' + 1) = t :: r.take k' := rfl
          rw [e, decode_scalar 0 t _ ht, ← e]
          exact decodeScalar_take _ h hk
  | succ f ih =>
    refine ⟨?_, ?_, ?_⟩
    · intro d v n h
      cases d with
      | nil => rw [decode_nil] at h; cases h
      | cons t r =>
        by_cases ht : t = 42
        · exact decode_array_bound ih ht h
        · rw [decode_scalar _ t r ht] at h; exact decodeScalar_bound h
    · intro d x h
      cases d with
      | nil => rw [decode_nil] at h; exact absurd rfl h
      | cons t r =>
        by_cases ht : t = 42
        · exact decode_array_append x ih ht h
        · rw [decode_scalar _ t r ht] at h ⊢
          show decode _ (t :: (r ++ x)) = _
          rw [decode_scalar _ t (r ++ x) ht]
          exact decodeScalar_append x h
    · intro d v n k h hk
      cases d with
      | nil => rw [decode_nil] at h; cases h
      | cons t r =>
        by_cases ht : t = 42
        · exact decode_array_take k ih ht h hk
        · rw [decode_scalar _ t r ht] at h
          have hn := (decodeScalar_bound h).1
          obtain ⟨k', rfl⟩ : ∃ k', k = k' + 1 := ⟨k - 1, by omega⟩
          have e : (t :: r).take (k' + 1) = t :: r.take k' := rfl
          rw [e, decode_scalar _ t _ ht, ← e]
          exact decodeScalar_take _ h hk


end TcVerif.Resp
