/-
  The state of ONE key: an optional (value, expiry) pair with the three store operations.
  The abstract map restricted to key `k` simulates a cell; requests on other keys leave it alone.
  This is the key-isolation argument (C05) and the bridge to the single-key GCRA theorems.
-/
import TcVerif.Lemmas.LimiterSim
namespace TcVerif
open Data

abbrev Cell := Option (Int × Int)

def Cell.live (c : Cell) (now : Int) : Option (Int × Int) :=
  match c with
  | some (v, e) => if e > now then some (v, e) else none
  | none => none

def Cell.ops : StoreOps Cell where
  get c _ now := (Cell.live c now).map (·.1)
  cas c _ old new ttl now :=
    match Cell.live c now with
    | some (cur, _) => if cur = old then (some (new, now + ttl), true) else (c, false)
    | none => (c, false)
  setnx c _ v ttl now :=
    match Cell.live c now with
    | some _ => (c, false)
    | none => (some (v, now + ttl), true)

theorem Cell.live_mono (c : Cell) (now now' : Int) (h : now ≤ now') :
    Cell.live c now' = match Cell.live c now with
      | some (v, e) => if e > now' then some (v, e) else none
      | none => none := by
  unfold Cell.live
  cases c with
  | none => rfl
  | some p =>
    obtain ⟨v, e⟩ := p
    by_cases h1 : e > now'
    · have : e > now := by omega
      simp [h1, this]
    · by_cases h2 : e > now <;> simp [h1, h2]

/-- key `k` of the abstract map `a` shows what the cell shows -/
def RK (k : Key) (now : Int) (a : AMap) (c : Cell) : Prop := Data.live a.data now k = Cell.live c now

theorem amap_sim_cell (k : Key) : OpsSimOn (fun k' => k' = k) AMap.ops Cell.ops (RK k) where
  mono := by
    intro now now' a c h hr
    unfold RK at *
    rw [Data.live_mono a.data now now' k h, Cell.live_mono c now now' h, hr]
    cases Cell.live c now with
    | none => rfl
    | some p => rfl
  get := by
    intro now a c k' hk hr
    subst hk
    simp only [AMap.ops, Cell.ops]
    rw [get_eq_live, hr]
  cas := by
    intro now a c k' old new ttl hk hr
    subst hk
    unfold RK at *
    simp only [AMap.ops, Cell.ops]
    rw [cas_eq, hr]
    cases hl : Cell.live c now with
    | none =>
      simp only
      exact ⟨trivial, hr⟩
    | some p =>
      obtain ⟨cur, e⟩ := p
      by_cases hc : cur = old
      · simp only [hc, if_true]
        refine ⟨trivial, ?_⟩
        rw [live_insert]
        simp [Cell.live]
      · simp only [hc, if_false]
        exact ⟨trivial, hr⟩
  setnx := by
    intro now a c k' v ttl hk hr
    subst hk
    unfold RK at *
    simp only [AMap.ops, Cell.ops]
    rw [setnx_eq, hr]
    cases hl : Cell.live c now with
    | none =>
      simp only
      refine ⟨trivial, ?_⟩
      rw [live_insert]
      simp [Cell.live]
    | some p =>
      simp only
      exact ⟨trivial, hr⟩

/-! ### requests on other keys do not touch key `k` -/

theorem amap_cas_other (a : AMap) (k k' : Key) (old new ttl now : Int) (h : k' ≠ k) :
    (AMap.ops.cas a k' old new ttl now).1.data.find k = a.data.find k := by
  simp only [AMap.ops]
  rw [cas_eq]
  cases Data.live a.data now k' with
  | none => rfl
  | some p =>
    obtain ⟨cur, e⟩ := p
    by_cases hc : cur = old
    · simp only [hc, if_true]; rw [find_insert]; simp [h]
    · simp only [hc, if_false]

theorem amap_setnx_other (a : AMap) (k k' : Key) (v ttl now : Int) (h : k' ≠ k) :
    (AMap.ops.setnx a k' v ttl now).1.data.find k = a.data.find k := by
  simp only [AMap.ops]
  rw [setnx_eq]
  cases Data.live a.data now k' with
  | none => simp only; rw [find_insert]; simp [h]
  | some p => rfl

theorem rlLoop_amap_other (fuel : Nat) (a : AMap) (E : Int) (r : Req) (tr : List StoreOp) (k : Key)
    (h : r.key ≠ k) : (rlLoop AMap.ops fuel a E r tr).1.data.find k = a.data.find k := by
  induction fuel generalizing a tr with
  | zero => rfl
  | succ n ih =>
    simp only [rlLoop]
    split
    · cases hg : AMap.ops.get a r.key r.now with
      | some old =>
        simp only
        split
        · exact amap_cas_other a k r.key _ _ _ _ h
        · rw [ih]; exact amap_cas_other a k r.key _ _ _ _ h
      | none =>
        simp only
        split
        · exact amap_setnx_other a k r.key _ _ _ h
        · rw [ih]; exact amap_setnx_other a k r.key _ _ _ h
    · rfl

theorem rateLimitE_amap_other (a : AMap) (E : Int) (r : Req) (k : Key) (h : r.key ≠ k) :
    (rateLimitE AMap.ops a E r).1.data.find k = a.data.find k := by
  unfold rateLimitE
  split
  · rfl
  · split
    · rfl
    · exact rlLoop_amap_other _ a E r [] k h

theorem RK_of_find_eq {k : Key} {now : Int} {a a' : AMap} {c : Cell}
    (h : a'.data.find k = a.data.find k) (hr : RK k now a c) : RK k now a' c := by
  unfold RK Data.live at *
  rw [h]; exact hr

/-- **Projection.** The responses to key `k` in any multi-key history (non-decreasing time) over the
    abstract map are exactly the responses of the sub-history of requests with key `k` run on
    the single cell of `k`. -/
theorem runTagged_project (ei : Int → Int → Int) (k : Key) (rs : List Req) (t0 : Int)
    (a : AMap) (c : Cell) (hr : RK k t0 a c) (hm : MonotoneFrom t0 rs) :
    (runTagged AMap.ops ei a rs).filter (fun p => p.1.key = k)
      = runTagged Cell.ops ei c (rs.filter (fun r => r.key = k)) := by
  induction rs generalizing a c t0 with
  | nil => rfl
  | cons r rs ih =>
    obtain ⟨h0, hm'⟩ := hm
    have hr' := (amap_sim_cell k).mono h0 hr
    by_cases hk : r.key = k
    · obtain ⟨h1, h2⟩ := rateLimitE_sim (amap_sim_cell k) a c (ei r.count r.period) r hk hr'
      have h1' : (rateLimitE AMap.ops a (ei r.count r.period) r).2.1 = (rateLimitE Cell.ops c (ei r.count r.period) r).2.1 := by
        rw [h1]
      simp only [runTagged, List.filter, hk, decide_true]
      rw [h1']
      congr 1
      exact ih r.now _ _ h2 hm'
    · have hk' : decide (r.key = k) = false := by simp [hk]
      simp only [runTagged, List.filter, hk']
      apply ih r.now _ c _ hm'
      exact RK_of_find_eq (rateLimitE_amap_other a _ r k hk) hr'

end TcVerif
