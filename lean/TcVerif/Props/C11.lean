/-
  C11 — No poison request (the part about the actor pipeline).

  `Total lim` = "the limiter step never panics, whatever the request" — for the real code this is
  C08 (established on the library side); the GCRA model `gcraLimiter` is total by construction.
  Under totality no prefix of traffic, whatever its contents, can kill the actor, and a request
  issued after any prefix gets exactly the answer of the sequential limiter.  Without totality one
  panicking request makes every later request fail (this is what the pinned tree does).
-/
import TcVerif.Lemmas.ActorGcra
import TcVerif.Lemmas.ActorToy
import TcVerif.Model.ActorDriver
import TcVerif.Props.C05
namespace TcVerif.Actor
variable {L Rq Rs : Type}
variable {M : Sys L Rq Rs} {n : Nat} {l0 : L} {s : State L Rq Rs}

/-- **C11 (the actor never dies).**  If the limiter step is total then in every reachable state the
    actor is alive, `actorPanic` and `fail` are not enabled, and neither ever occurred. -/
theorem C11_actor_never_dies (htot : Total M.lim) (h : Reach M n l0 s) :
    s.alive = true ∧
    (∀ id r, Event.panic id r ∉ s.log) ∧ (∀ id, Event.fail id ∉ s.log) ∧
    (∀ s', ¬ Step M s .actorPanic s') ∧ (∀ c s', ¬ Step M s (.fail c) s') := by
  have ha := inv_alive_of_total htot h
  refine ⟨ha, ?_, ?_, ?_, ?_⟩
  · intro id r hp
    have := (inv_dead h).2.1 id r hp
    rw [ha] at this; cases this
  · intro id hf
    have := (inv_dead h).2.2 id hf
    rw [ha] at this; cases this
  · intro s' hst
    generalize hl : Label.actorPanic = lb at hst
    cases hst <;> cases hl
    rename_i hs'
    exact htot _ _ hs'
  · intro c s' hst
    generalize hl : Label.fail c = lb at hst
    cases hst <;> cases hl
    all_goals
      have hd : s.alive = false := by assumption
      rw [ha] at hd
      cases hd

/-- **C11 (probe).**  Under totality, after ANY reachable state — any prefix of requests with any
    contents, any cancellations — in which the earlier requests have been processed (empty queue),
    a client `c` that now issues its next request `r` can run `call; enq; proc; ret` (capacity ≥ 1),
    this run is the only one with these labels, and it returns exactly the response of the
    sequential limiter run over the `proc` log followed by `r`. -/
theorem C11_probe_correct (htot : Total M.lim) (hcap : 1 ≤ M.cap) (h : Reach M n l0 s)
    (hq : s.queue = []) {c pc : Nat} {r : Rq}
    (hc : s.clients[c]? = some ⟨pc, .idle⟩) (hr : (M.prog c)[pc]? = some r) :
    ∃ l' rs s',
      M.lim.step s.lim r = some (l', rs) ∧
      seqRun M.lim l0 ((procLog s.log).map (·.2.1) ++ [r]) = some (l', (procLog s.log).map (·.2.2) ++ [rs]) ∧
      Run M s [.call c, .enq c, .proc, .ret c] s' ∧
      (∀ s'', Run M s [.call c, .enq c, .proc, .ret c] s'' → s'' = s') ∧
      s'.log = s.log ++ [.call (c, pc) r, .enq (c, pc) r, .proc (c, pc) r rs, .ret (c, pc) rs] ∧
      s'.lim = l' ∧ s'.clients[c]? = some ⟨pc + 1, .idle⟩ := by
  have ha := inv_alive_of_total htot h
  obtain ⟨hnr, hna⟩ := no_stale_slot h hc
  cases hstep : M.lim.step s.lim r with
  | none => exact absurd hstep (htot _ _)
  | some p =>
    obtain ⟨l', rs⟩ := p
    have hlt := lt_of_getElem? hc
    -- the four steps
    have h1 : Step M s (.call c) _ := .call hc hr
    have h2 : Step M _ (.enq c) _ :=
      .enq (s := { s with clients := s.clients.set c ⟨pc, .sending⟩, log := s.log ++ [.call (c, pc) r] })
        (c := c) (pc := pc) (r := r) (by simp [hlt]) hr (by simp [hq]; omega) ha
    have h3 : Step M _ .proc _ :=
      .proc (s := { s with clients := (s.clients.set c ⟨pc, .sending⟩).set c ⟨pc, .waiting⟩,
                           queue := s.queue ++ [((c, pc), r)],
                           log := s.log ++ [.call (c, pc) r] ++ [.enq (c, pc) r] })
        (id := (c, pc)) (r := r) (q := []) (l' := l') (rs := rs) ha (by simp [hq]) hstep
    have hfind : findReply (c, pc) (if (c, pc) ∈ s.abandoned then s.replies else s.replies ++ [((c, pc), rs)])
        = some rs := by
      rw [if_neg hna]; exact findReply_append_new hnr
    have h4 : Step M _ (.ret c) _ :=
      .ret (s := { s with clients := (s.clients.set c ⟨pc, .sending⟩).set c ⟨pc, .waiting⟩,
                          queue := [], lim := l',
                          replies := if (c, pc) ∈ s.abandoned then s.replies else s.replies ++ [((c, pc), rs)],
                          log := s.log ++ [.call (c, pc) r] ++ [.enq (c, pc) r] ++ [.proc (c, pc) r rs] })
        (c := c) (pc := pc) (rs := rs) (by simp [hlt]) hfind
    have hrun : Run M s [.call c, .enq c, .proc, .ret c] _ := .cons h1 (.cons h2 (.cons h3 (.cons h4 (.nil _))))
    refine ⟨l', rs, _, rfl, ?_, hrun, ?_, by simp, rfl, by simp [hlt]⟩
    · rw [seqRun_snoc, inv_sequential h]
      simp only [hstep]
    · intro s'' hr''
      have e1 := run?_iff.mpr hr''
      have e2 := run?_iff.mpr hrun
      rw [e1] at e2
      exact Option.some.inj e2

/-- **C11 (the totality hypothesis is needed).**  If the limiter step panics on the next request
    `r` of some client in a reachable state with an empty queue (capacity ≥ 1), there is a run —
    `call; enq; actorPanic` — after which, whatever happens next: the actor stays dead, nothing is
    ever processed again, no request called afterwards is ever answered, and every caller that is
    (or gets) stuck in `sending`/`waiting` can only `fail` ("actor has shut down") or give up. -/
theorem C11_poison_without_totality (hcap : 1 ≤ M.cap) (h : Reach M n l0 s) (ha : s.alive = true)
    (hq : s.queue = []) {c pc : Nat} {r : Rq}
    (hc : s.clients[c]? = some ⟨pc, .idle⟩) (hr : (M.prog c)[pc]? = some r)
    (hpanic : M.lim.step s.lim r = none) :
    ∃ s', Run M s [.call c, .enq c, .actorPanic] s' ∧ s'.alive = false ∧
      ∀ lbs s'', Run M s' lbs s'' →
        s''.alive = false ∧ procLog s''.log = procLog s'.log ∧ s''.lim = s'.lim ∧
        (∀ c' s3, ¬ Step M s'' (.enq c') s3) ∧ (∀ s3, ¬ Step M s'' .proc s3) ∧
        (∀ (j : Nat) (id : Id) (r' : Rq), s'.log.length ≤ j → s''.log[j]? = some (Event.call id r') →
          ∀ o, Event.ret id o ∉ s''.log) ∧
        (∀ c' pc', s''.clients[c']? = some ⟨pc', .sending⟩ → ∃ s3, Step M s'' (.fail c') s3) := by
  have hlt := lt_of_getElem? hc
  have h1 : Step M s (.call c) _ := .call hc hr
  have h2 : Step M _ (.enq c) _ :=
    .enq (s := { s with clients := s.clients.set c ⟨pc, .sending⟩, log := s.log ++ [.call (c, pc) r] })
      (c := c) (pc := pc) (r := r) (by simp [hlt]) hr (by simp [hq]; omega) ha
  have h3 : Step M _ .actorPanic _ :=
    .actorPanic (s := { s with clients := (s.clients.set c ⟨pc, .sending⟩).set c ⟨pc, .waiting⟩,
                               queue := s.queue ++ [((c, pc), r)],
                               log := s.log ++ [.call (c, pc) r] ++ [.enq (c, pc) r] })
      (id := (c, pc)) (r := r) (q := []) ha (by simp [hq]) hpanic
  have hrun : Run M s [.call c, .enq c, .actorPanic] _ := .cons h1 (.cons h2 (.cons h3 (.nil _)))
  refine ⟨_, hrun, rfl, ?_⟩
  intro lbs s'' hr''
  have hreach' := h.run hrun
  have hreach'' := hreach'.run hr''
  obtain ⟨d1, d2, d3, d4, d5, ext, d6⟩ := dead_run rfl hr''
  refine ⟨d1, d2, d4, ?_, ?_, ?_, ?_⟩
  · intro c' s3 hst
    generalize hl : Label.enq c' = lb at hst
    cases hst <;> cases hl
    have hal : s''.alive = true := by assumption
    rw [d1] at hal; cases hal
  · intro s3 hst
    generalize hl : Label.proc = lb at hst
    cases hst <;> cases hl
    have hal : s''.alive = true := by assumption
    rw [d1] at hal; cases hal
  · intro j id r' hj hcall o hret
    obtain ⟨k, hk⟩ := getElem?_of_mem hret
    obtain ⟨p, _, r2, hp⟩ := ret_after_proc hreach'' hk
    -- that `proc` was already in the log when the actor died
    have hmem : Event.proc id r2 o ∈ _ := mem_procLog.mp (d2 ▸ mem_procLog.mpr (mem_of_getElem? hp))
    obtain ⟨p', hp'⟩ := getElem?_of_mem hmem
    obtain ⟨e, _, he⟩ := proc_after_enq hreach' hp'
    obtain ⟨i, _, hi⟩ := enq_after_call hreach' he
    have hilt := lt_of_getElem? hi
    have hi'' : s''.log[i]? = some (Event.call id r2) := by
      rw [d6, List.getElem?_append_left hilt]; exact hi
    have := call_unique hreach'' hi'' hcall
    omega
  · intro c' pc' hc'
    exact ⟨_, .failSend hc' d1⟩

/-! ### the GCRA instance -/

/-- the model limiter is total (a library error is an `Err` response, not a panic); for the real
    code this is C08 -/
theorem C11_gcra_total : Total gcraLimiter := gcra_total

/-- **C11 (probe on a fresh key, GCRA instance).**  With the GCRA model as the limiter (any store
    kind and configuration, initially empty), after any reachable state with an empty queue — the
    processed requests may have had any keys and any parameters, valid or not, timestamps
    non-decreasing — a request `r` on a key that no processed request used gets exactly the answer
    of a brand-new limiter: `rateLimit` on any empty store.  (Key isolation is C05.) -/
theorem C11_probe_fresh_key {M : Sys AnyStore Req Outcome} {n : Nat} {l0 : AnyStore}
    {s : State AnyStore Req Outcome} (hM : M.lim = gcraLimiter) (hcap : 1 ≤ M.cap)
    (h : Reach M n l0 s) (hl0 : l0.data = []) (hq : s.queue = []) {c pc : Nat} {r : Req}
    (hc : s.clients[c]? = some ⟨pc, .idle⟩) (hr : (M.prog c)[pc]? = some r)
    (t0 : Int) (hmono : MonotoneFrom t0 ((procLog s.log).map (·.2.1) ++ [r]))
    (hfresh : ∀ p ∈ procLog s.log, p.2.1.key ≠ r.key)
    (st' : AnyStore) (hst' : st'.data = []) :
    ∃ s', Run M s [.call c, .enq c, .proc, .ret c] s' ∧
      s'.log = s.log ++ [.call (c, pc) r, .enq (c, pc) r,
        .proc (c, pc) r (rateLimit AnyStore.ops st' r).2.1, .ret (c, pc) (rateLimit AnyStore.ops st' r).2.1] := by
  have htot : Total M.lim := hM ▸ gcra_total
  obtain ⟨l', rs, s', _, hseq, hrun, _, hlog, _, _⟩ := C11_probe_correct htot hcap h hq hc hr
  refine ⟨s', hrun, ?_⟩
  suffices hrs : rs = (rateLimit AnyStore.ops st' r).2.1 by rw [hlog, hrs]
  -- the sequential run is `runTagged`
  rw [hM, seqRun_gcra] at hseq
  have hresp := congrArg (fun p => p.2) (Option.some.inj hseq)
  simp only at hresp
  generalize hprocs : (procLog s.log).map (·.2.1) = procs at hresp hmono
  rw [runTagged_append] at hresp
  simp only [runTagged, List.map_append, List.map_cons, List.map_nil] at hresp
  have hlast := congrArg List.getLast? hresp
  simp only [List.getLast?_append, List.getLast?_singleton] at hlast
  simp only [Option.some_or, Option.some.injEq] at hlast
  -- key isolation
  have hiso := C05_key_isolation emissionInterval r.key (procs ++ [r]) t0 l0 st' hl0 hst' hmono
  have hfilt : (procs ++ [r]).filter (fun q => q.key = r.key) = [r] := by
    rw [List.filter_append]
    have : procs.filter (fun q => q.key = r.key) = [] := by
      apply List.filter_eq_nil_iff.mpr
      intro q hq'
      rw [← hprocs] at hq'
      obtain ⟨p, hp, rfl⟩ := List.mem_map.mp hq'
      simpa using hfresh p hp
    rw [this]
    simp
  rw [hfilt, runTagged_append, List.filter_append] at hiso
  have hfilt0 : (runTagged AnyStore.ops emissionInterval l0 procs).filter (fun p => p.1.key = r.key) = [] := by
    apply List.filter_eq_nil_iff.mpr
    intro p hp
    have hp1 : p.1 ∈ procs := by
      rw [← runTagged_map_fst AnyStore.ops emissionInterval l0 procs]
      exact List.mem_map.mpr ⟨p, hp, rfl⟩
    rw [← hprocs] at hp1
    obtain ⟨p', hp', he⟩ := List.mem_map.mp hp1
    have := hfresh p' hp'
    rw [he] at this
    simpa using this
  rw [hfilt0] at hiso
  simp only [runTagged, List.nil_append, List.filter_cons, decide_true, if_true, List.filter_nil,
    List.cons.injEq, Prod.mk.injEq, true_and, and_true] at hiso
  rw [← hlast, hiso]
  rfl

/-! ### non-vacuity -/

/-- the toy limiter of `ActorToy.lean` is total, so the concrete run (back-pressure and a cancel
    included) keeps the actor alive, and a probe after it is answered by the sequential limiter -/
example : Total toyLim := by intro l r h; simp [toyLim] at h

example : ∃ s, Reach toySys 2 0 s ∧ s.alive = true ∧ s.queue = [] :=
  let ⟨s, hs, _, _, hq⟩ := toy_reach
  ⟨s, hs, (C11_actor_never_dies (M := toySys) (by intro l r h; simp [toySys, toyLim] at h) hs).1, hq⟩

/-- a limiter that panics on request `7`: after `call; enq; actorPanic` the next caller fails -/
def poisonLim : Limiter Nat Nat Bool where
  step l r := if r = 7 then none else some (l + r, true)

def poisonSys : Sys Nat Nat Bool :=
  { lim := poisonLim, cap := 1, prog := fun c => if c = 0 then [7] else [1] }

example : (run? poisonSys (init 2 0) [.call 0, .enq 0, .actorPanic, .call 1, .fail 1, .fail 0]).map
    (fun s => (s.alive, s.log)) =
    some (false, [.call (0, 0) 7, .enq (0, 0) 7, .panic (0, 0) 7, .call (1, 0) 1, .fail (1, 0), .fail (0, 0)]) := by
  decide

example : (run? poisonSys (init 2 0) [.call 0, .enq 0, .actorPanic, .call 1]).bind
    (fun s => step? poisonSys s (.enq 1)) = none := by
  decide

/-- GCRA instance, evaluated: a hostile prefix (invalid limits, negative quantity, extreme values)
    on other keys, then a probe on a fresh key: the answer is the fresh-key answer -/
example :
    let M : Sys AnyStore Req Outcome :=
      { lim := gcraLimiter, cap := 1,
        prog := fun c => if c = 0 then [⟨"a", -5, 0, 0, 7, 10⟩, ⟨"b", 9223372036854775807, 1, 9223372036854775807, 1, 11⟩,
                                         ⟨"a", 1, 1, 1, -1, 12⟩]
                         else [⟨"probe", 2, 1, 60, 1, 13⟩] }
    (run? M (init 2 (.prob ⟨[], 0, 1⟩))
        [.call 0, .enq 0, .proc, .ret 0, .call 0, .enq 0, .proc, .cancel 0, .call 0, .enq 0, .proc, .ret 0,
         .call 1, .enq 1, .proc, .ret 1]).map (fun s => (s.log.getLast?, s.alive)) =
      some (some (.ret (1, 0) (rateLimit AnyStore.ops (.amap AMap.empty) ⟨"probe", 2, 1, 60, 1, 13⟩).2.1), true) := by
  decide

end TcVerif.Actor
