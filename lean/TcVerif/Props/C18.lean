/-
  C18 — Rate arithmetic: the configured rate is realised to within 1 ns per token.

  `emissionInterval count period` is the bit-level replica (IEEE-754 binary64, round-to-nearest-
  even, `as u64` truncation) of
      (period_seconds as f64 * 1_000_000_000.0 / count as f64) as u64
  in `Rate::from_count_and_period`.  Domain of the property ("normal domain"):
      1 ≤ period ≤ 9·10^6 s,   1 ≤ count ≤ period·10^9.
  The proofs (Lemmas/Float*.lean) show that on this domain the two conversions and the product are
  exact (everything is an integer below 2^53) and that the single rounding of the quotient can
  never reach the next integer: the distance from P/c to ⌊P/c⌋+1 is at least 1/c, which is more
  than half an ulp of the quotient.  The result holds in fact whenever period·10^9 < 2^53 and
  count < 2^53 (`emissionInterval_int`), which is what `C18_unit_constructors` uses for counts
  larger than k·10^9 (both sides are then 0).

  All theorems here are stated over `Int`, the type of the model's `count`/`period` arguments.
-/
import TcVerif.Lemmas.FloatRate
namespace TcVerif

/-- THE theorem: on the normal domain the emission interval is the exact quotient
    `period·10^9 / count` rounded down to a nanosecond. -/
theorem C18_floor (c p : Int) (hp1 : 1 ≤ p) (hp : p ≤ 9000000) (hc1 : 1 ≤ c)
    (hc : c ≤ p * 1000000000) :
    emissionInterval c p = p * 1000000000 / c :=
  emissionInterval_int c p (by omega) (by omega) (by omega) (by omega)

example : emissionInterval 100 60 = 60 * 1000000000 / 100 :=
  C18_floor 100 60 (by decide) (by decide) (by decide) (by decide)
example : emissionInterval 3 1 = 333333333 :=
  C18_floor 3 1 (by decide) (by decide) (by decide) (by decide)
/-- both domain bounds attained -/
example : emissionInterval (9000000 * 1000000000) 9000000 = 1 :=
  C18_floor (9000000 * 1000000000) 9000000 (by decide) (by decide) (by decide) (by decide)

/-- `E × count ≤ period < (E + 1 ns) × count`, and `E` is at least one nanosecond. -/
theorem C18_bracket (c p : Int) (hp1 : 1 ≤ p) (hp : p ≤ 9000000) (hc1 : 1 ≤ c)
    (hc : c ≤ p * 1000000000) :
    emissionInterval c p * c ≤ p * 1000000000 ∧
    p * 1000000000 < (emissionInterval c p + 1) * c ∧
    1 ≤ emissionInterval c p := by
  rw [C18_floor c p hp1 hp hc1 hc]
  have hc0 : 0 < c := by omega
  refine ⟨Int.ediv_mul_le _ (by omega), Int.lt_ediv_add_one_mul_self _ hc0, ?_⟩
  have := (Int.le_ediv_iff_mul_le (a := 1) (b := p * 1000000000) hc0).2 (by omega)
  exact this

example : emissionInterval 7 60 * 7 ≤ 60 * 1000000000 ∧
    60 * 1000000000 < (emissionInterval 7 60 + 1) * 7 ∧ 1 ≤ emissionInterval 7 60 :=
  C18_bracket 7 60 (by decide) (by decide) (by decide) (by decide)

/-- The sustained granted rate never falls below the configured one.
    One token is granted every `E` ns, i.e. `count` tokens every `E·count` ns, and
    `E·count ≤ period` (in ns): at least `count` tokens per `period`. -/
theorem C18_rate_not_below (c p : Int) (hp1 : 1 ≤ p) (hp : p ≤ 9000000) (hc1 : 1 ≤ c)
    (hc : c ≤ p * 1000000000) :
    emissionInterval c p * c ≤ p * 1000000000 :=
  (C18_bracket c p hp1 hp hc1 hc).1

example : emissionInterval 7 60 * 7 ≤ 60 * 1000000000 :=
  C18_rate_not_below 7 60 (by decide) (by decide) (by decide) (by decide)

/-- The granted rate exceeds the configured one by less than one part in `E`.
    With `P = period·10^9` ns: granted rate `1/E`, configured rate `c/P` (tokens per ns). The
    relative excess is `(1/E − c/P) / (c/P) = (P − E·c) / (E·c)`; it is `< 1/E` iff
    `(P − E·c)·E < E·c` (multiply by `E·(E·c) > 0`), which is the second conjunct; the first
    conjunct `P − E·c < c` is the same fact with the positive factor `E` cancelled (the shortfall
    of `E·c` against the period is less than one count, i.e. less than 1 ns per token). -/
theorem C18_rate_excess (c p : Int) (hp1 : 1 ≤ p) (hp : p ≤ 9000000) (hc1 : 1 ≤ c)
    (hc : c ≤ p * 1000000000) :
    p * 1000000000 - emissionInterval c p * c < c ∧
    (p * 1000000000 - emissionInterval c p * c) * emissionInterval c p
      < emissionInterval c p * c := by
  obtain ⟨_, h2, h3⟩ := C18_bracket c p hp1 hp hc1 hc
  have h4 : p * 1000000000 - emissionInterval c p * c < c := by
    rw [Int.add_mul, Int.one_mul] at h2
    omega
  refine ⟨h4, ?_⟩
  have h5 := Int.mul_lt_mul_of_pos_right h4 (show 0 < emissionInterval c p by omega)
  rw [Int.mul_comm c (emissionInterval c p)] at h5
  exact h5

example : 60 * 1000000000 - emissionInterval 7 60 * 7 < 7 ∧
    (60 * 1000000000 - emissionInterval 7 60 * 7) * emissionInterval 7 60 < emissionInterval 7 60 * 7 :=
  C18_rate_excess 7 60 (by decide) (by decide) (by decide) (by decide)

/-- `Rate::per_second/per_minute/per_hour/per_day(n)` (= `Duration::from_secs(k) / (n as u32)`)
    agree with `from_count_and_period(n, k)` for every `n` from 1 to 2^32 − 1, including the
    counts above `k·10^9` where both intervals are 0 ns. (`unitRate` returning `some` also says:
    no division-by-zero panic for these `n`.) -/
theorem C18_unit_constructors (n k : Nat) (hn1 : 1 ≤ n) (hn : n ≤ 4294967295)
    (hk : k = Gen.UNIT_SECOND_SECS ∨ k = Gen.UNIT_MINUTE_SECS ∨ k = Gen.UNIT_HOUR_SECS ∨
      k = Gen.UNIT_DAY_SECS) :
    unitRate k n = some (emissionInterval (n : Int) (k : Int)).toNat := by
  have hk' : 0 < k ∧ k ≤ 86400 := by
    unfold Gen.UNIT_SECOND_SECS Gen.UNIT_MINUTE_SECS Gen.UNIT_HOUR_SECS Gen.UNIT_DAY_SECS at hk
    omega
  rw [emissionInterval_nat n k (by omega) hk'.1 (by unfold Gen.NS_PER_SEC P53; omega)
    (by unfold P53; omega)]
  unfold unitRate
  simp only [Int.toNat_natCast]
  rw [Nat.mod_eq_of_lt (by omega), if_neg (by omega)]

example : unitRate Gen.UNIT_MINUTE_SECS 7 = some (emissionInterval 7 60).toNat :=
  C18_unit_constructors 7 60 (by decide) (by decide) (Or.inr (Or.inl rfl))
/-- a count above k·10^9: both sides are 0 ns -/
example : unitRate Gen.UNIT_SECOND_SECS 4294967295 = some 0 ∧
    (emissionInterval 4294967295 1).toNat = 0 := by
  have h := C18_unit_constructors 4294967295 1 (by decide) (by decide) (Or.inl rfl)
  have h0 : unitRate Gen.UNIT_SECOND_SECS 4294967295 = some 0 := by decide
  refine ⟨h0, ?_⟩
  have h1 : unitRate 1 4294967295 = some 0 := h0
  rw [h1] at h
  exact (Option.some.inj h).symm

/-- Non-positive arguments give the documented blocking rate `Duration::from_secs(u64::MAX)`
    (in ns) — a total function, no panic. -/
theorem C18_nonpositive_blocking (c p : Int) (h : c ≤ 0 ∨ p ≤ 0) :
    emissionInterval c p = 18446744073709551615 * 1000000000 := by
  unfold emissionInterval
  rw [if_pos h]
  rfl

example : emissionInterval 0 60 = 18446744073709551615 * 1000000000 :=
  C18_nonpositive_blocking 0 60 (Or.inl (by decide))
example : emissionInterval 5 (-1) = 18446744073709551615 * 1000000000 :=
  C18_nonpositive_blocking 5 (-1) (Or.inr (by decide))

end TcVerif
