/-
  C10 (RESP half) — exactly one reply per command, in command order, however the commands are
  pipelined or split across packets.
  Property theorems only; helper lemmas are in `TcVerif/Lemmas/Resp*.lean`.
-/
import TcVerif.Lemmas.RespConn
import TcVerif.Lemmas.RespCmd

namespace TcVerif.Resp

open TcVerif.Gen

/-- For every chunking of a stream `s` that does not hit the 64 KiB cap, against a stateful limiter
    started in `st`:  the decoded commands are the frames of the WHOLE stream (`frames`:
    successive `parse` results up to and including the first QUIT, stopping at the first malformed
    or unfinished frame); the bytes written are the concatenation, in order, of the encodings of
    the replies to exactly these commands (`replies` threads the limiter state through them, one
    reply per command); and the limiter ends in the state reached by exactly these commands. -/
theorem C10_resp_one_reply_per_command {σ : Type} (actor : σ → ThrottleReq → ActorAnswer × σ)
    (upperOf : List UInt8 → List UInt8) (st : σ) (s : List UInt8) (cs : List (List UInt8))
    (h : IsChunking cs s) (hno : (connRunS actor upperOf st cs).end ≠ .overflow) :
    (connRunS actor upperOf st cs).cmds = frames upperOf s.length s ∧
    (connRunS actor upperOf st cs).out
      = ((replies actor upperOf st (frames upperOf s.length s)).1.map encode).flatten ∧
    (connRunS actor upperOf st cs).st = (replies actor upperOf st (frames upperOf s.length s)).2 ∧
    (replies actor upperOf st (frames upperOf s.length s)).1.length
      = (frames upperOf s.length s).length := by
  have e := connLoop_eq_stream actor upperOf cs st [] (fun c hc => (h.2 c hc).1) parse_nil hno
  simp only [List.nil_append, h.1] at e
  unfold connRunS
  rw [e.1, e.2.2.1, e.2.2.2]
  unfold streamRun
  have ho := drain_out actor upperOf s.length st s
  rw [drain_cmds] at ho
  exact ⟨drain_cmds actor upperOf _ st s, ho.1, ho.2, replies_length actor upperOf st _⟩

/-- stateless form, as bytes: `connRun` writes `encode (respond cmd)` for each frame, in order -/
theorem C10_resp_one_reply_per_command_stateless (actor : ThrottleReq → ActorAnswer)
    (upperOf : List UInt8 → List UInt8) (s : List UInt8) (cs : List (List UInt8))
    (h : IsChunking cs s) (hno : (connRun actor upperOf cs).2 ≠ .overflow) :
    (connRun actor upperOf cs).1
      = ((frames upperOf s.length s).map fun v => encode (respond actor upperOf v)).flatten := by
  have := C10_resp_one_reply_per_command (liftActor actor) upperOf () s cs h hno
  show (connRunS (liftActor actor) upperOf () cs).out = _
  rw [this.2.1, replies_lift, List.map_map]
  rfl

/-- overflow clause: in EVERY run (capped or not) the decoded commands are an initial segment of
    the stream's frames, and the bytes written are the replies to exactly that segment, one reply
    per command, in order -/
theorem C10_resp_prefix {σ : Type} (actor : σ → ThrottleReq → ActorAnswer × σ)
    (upperOf : List UInt8 → List UInt8) (st : σ) (s : List UInt8) (cs : List (List UInt8))
    (h : IsChunking cs s) :
    ∃ k, (connRunS actor upperOf st cs).cmds = (frames upperOf s.length s).take k ∧
      (connRunS actor upperOf st cs).out
        = ((replies actor upperOf st ((frames upperOf s.length s).take k)).1.map encode).flatten ∧
      (connRunS actor upperOf st cs).st
        = (replies actor upperOf st ((frames upperOf s.length s).take k)).2 := by
  have hp := connLoop_prefix_stream actor upperOf cs st [] (fun c hc => (h.2 c hc).1) parse_nil
  simp only [List.nil_append, h.1] at hp
  unfold streamRun at hp
  rw [drain_cmds] at hp
  have ho := connLoop_out actor upperOf cs st []
  have hk := List.prefix_iff_eq_take.mp hp.2
  refine ⟨(connLoop actor upperOf cs st []).cmds.length, hk, ?_, ?_⟩
  · unfold connRunS; rw [← hk]; exact ho.1
  · unfold connRunS; rw [← hk]; exact ho.2

/-- and each of those replies is exactly one RESP frame (C14), provided the upper-casing oracle
    keeps strings valid UTF-8 and the limiter's answers are sane (`i64` fields, error text valid
    UTF-8 without CR LF) -/
theorem C10_resp_replies_are_frames {σ : Type} (actor : σ → ThrottleReq → ActorAnswer × σ)
    (upperOf : List UInt8 → List UInt8) (st : σ) (cs : List (List UInt8))
    (hup : ∀ s, validUtf8 s = true → validUtf8 (upperOf s) = true)
    (hact : ∀ st req, AnswerOK (actor st req).1) :
    ∀ r ∈ (replies actor upperOf st (connRunS actor upperOf st cs).cmds).1, ∀ x,
      parse (encode r ++ x) = .ok r (encode r).length := by
  intro r hr x
  have hwf := replies_wf hup hact st _ (connLoop_cmds_wf actor upperOf cs st []) r hr
  rw [WF_iff] at hwf
  exact roundtrip _ RESP_MAX_DEPTH hwf.1 hwf.2 x

/-! ## the hypotheses are satisfiable -/

def exUpper (s : List UInt8) : List UInt8 := s.map fun c => if 97 ≤ c ∧ c ≤ 122 then c - 32 else c
def exActor (_ : ThrottleReq) : ActorAnswer := .ok true 10 9 60 0

/-- two pipelined commands (PING hi, THROTTLE k 10 100 60) cut in the middle of a bulk string -/
example :
    connRun exActor exUpper
      [b!"*2\r\n$4\r\nping\r\n$2\r\nhi\r\n*5\r\n$8\r\nthro", b!"ttle\r\n$1\r\nk\r\n$2\r\n10\r\n:100\r\n$2\r\n60\r\n"]
    = (b!"$2\r\nhi\r\n*5\r\n:1\r\n:10\r\n:9\r\n:60\r\n:0\r\n", .open []) := by rfl

/-- a stateful limiter: allows the first request only (state = number of requests seen) -/
def exCounter (n : Nat) (_ : ThrottleReq) : ActorAnswer × Nat :=
  (.ok (n == 0) 1 0 60 (if n == 0 then 0 else 60), n + 1)

def exThrottle : List UInt8 := b!"*5\r\n$8\r\nTHROTTLE\r\n$1\r\nk\r\n:1\r\n:1\r\n:60\r\n"

/-- two pipelined THROTTLEs, cut into 7-byte reads: first allowed, second denied, in order -/
example :
    let r := connRunS exCounter exUpper 0
      [exThrottle.take 7, (exThrottle.drop 7).take 7, (exThrottle.drop 14) ++ exThrottle.take 20,
       exThrottle.drop 20]
    (r.out, r.cmds.length, r.st) =
      (b!"*5\r\n:1\r\n:1\r\n:0\r\n:60\r\n:0\r\n*5\r\n:0\r\n:1\r\n:0\r\n:60\r\n:60\r\n", 2, 2) := by
  rfl

example : IsChunking
    [b!"*2\r\n$4\r\nping\r\n$2\r\nhi\r\n*5\r\n$8\r\nthro", b!"ttle\r\n$1\r\nk\r\n$2\r\n10\r\n:100\r\n$2\r\n60\r\n"]
    b!"*2\r\n$4\r\nping\r\n$2\r\nhi\r\n*5\r\n$8\r\nthrottle\r\n$1\r\nk\r\n$2\r\n10\r\n:100\r\n$2\r\n60\r\n" := by
  refine ⟨rfl, ?_⟩
  intro c hc
  simp only [List.mem_cons, List.not_mem_nil, or_false] at hc
  rcases hc with rfl | rfl <;> exact ⟨by decide, by decide⟩

end TcVerif.Resp
