/-
  C01 — Rate conformance: no window ever admits more than burst + rate × length.

  For every multi-key history with globally non-decreasing timestamps, on every store (kind,
  configuration, cleanup schedule), for every key `k` used with fixed limits in D (other keys
  arbitrary), and EVERY window [t1,t2]: the quantity admitted for `k` with timestamps inside the
  window is at most  max_burst + (t2 - t1) / emission_interval.  Idle gaps, expiry and cleanup of
  the key are all covered: the state of `k` lives in whatever store is plugged in and the
  theorem quantifies over all of them and all their sweeps.
-/
import TcVerif.Props.C02
import TcVerif.Props.C18
namespace TcVerif

/-- tokens admitted for key `k` with timestamps in `[t1,t2]` -/
def admittedTokensK (k : Key) (t1 t2 : Int) : List (Req × Outcome) → Int
  | [] => 0
  | p :: rest =>
    (if p.1.key = k ∧ p.2.allowed = true ∧ t1 ≤ p.1.now ∧ p.1.now ≤ t2 then p.1.qty else 0)
      + admittedTokensK k t1 t2 rest

theorem admittedCreditK_eq_tokens (k : Key) (E t1 t2 : Int) (l : List (Req × Outcome)) :
    admittedCreditK k E t1 t2 l = admittedTokensK k t1 t2 l * E := by
  induction l with
  | nil => simp [admittedCreditK, admittedTokensK]
  | cons p rest ih =>
    simp only [admittedCreditK, admittedTokensK, ih, Int.add_mul]
    split <;> simp

/-- **C01, in nanoseconds of credit**: `Σ q·E ≤ B·E + (t2 - t1)`. -/
theorem C01_window_bound_credit (ei : Int → Int → Int) (k : Key) (rs : List Req) (t0 : Int) (E B : Int)
    (st : AnyStore) (hst : st.data = []) (hm : MonotoneFrom t0 rs)
    (hfix : FixedD ei E B t0 (rs.filter (fun r => r.key = k))) (hD : DomD E B)
    (t1 t2 : Int) (h12 : t1 ≤ t2) :
    admittedCreditK k E t1 t2 (runTagged AnyStore.ops ei st rs) ≤ B * E + (t2 - t1) := by
  rw [admittedCreditK_filter, C05_projection_to_cell ei k rs t0 st hst hm]
  rw [(cell_run_bucket _ t0 none none hfix (rel_fresh E B t0) t1 t2).2.2]
  have hE : 0 ≤ E := by have := hD.hE; omega
  have hBE : 0 ≤ B * E := by have := hD.E_le; omega
  exact Bucket.window_bound B E t1 t2 hE hBE h12 none _ t0 trivial (fun _ h => by cases h) (fixedD_sorted hfix)

/-- **C01.** The total quantity admitted with timestamps in any window `[t1,t2]` never exceeds
    `max_burst + (t2 - t1) / emission_interval` (integer division). -/
theorem C01_window_bound (ei : Int → Int → Int) (k : Key) (rs : List Req) (t0 : Int) (E B : Int)
    (st : AnyStore) (hst : st.data = []) (hm : MonotoneFrom t0 rs)
    (hfix : FixedD ei E B t0 (rs.filter (fun r => r.key = k))) (hD : DomD E B)
    (t1 t2 : Int) (h12 : t1 ≤ t2) :
    admittedTokensK k t1 t2 (runTagged AnyStore.ops ei st rs) ≤ B + (t2 - t1) / E := by
  have h := C01_window_bound_credit ei k rs t0 E B st hst hm hfix hD t1 t2 h12
  rw [admittedCreditK_eq_tokens] at h
  have hE : 0 < E := by have := hD.hE; omega
  have h2 : admittedTokensK k t1 t2 (runTagged AnyStore.ops ei st rs) ≤ (B * E + (t2 - t1)) / E :=
    (Int.le_ediv_iff_mul_le hE).mpr h
  have h3 : (B * E + (t2 - t1)) / E = B + (t2 - t1) / E := by
    rw [Int.add_comm, Int.add_mul_ediv_right _ _ (by omega : E ≠ 0), Int.add_comm]
  omega

/-- a key that was quiet for any length of time never earns more than `max_burst` at one instant -/
theorem C01_idle_never_exceeds_burst (ei : Int → Int → Int) (k : Key) (rs : List Req) (t0 : Int) (E B : Int)
    (st : AnyStore) (hst : st.data = []) (hm : MonotoneFrom t0 rs)
    (hfix : FixedD ei E B t0 (rs.filter (fun r => r.key = k))) (hD : DomD E B) (t : Int) :
    admittedTokensK k t t (runTagged AnyStore.ops ei st rs) ≤ B := by
  have h := C01_window_bound ei k rs t0 E B st hst hm hfix hD t t (Int.le_refl t)
  simpa using h

/-! #### non-vacuity: the history of C02's example attains the bound with equality
    (burst 2 at t = 1 s: 1 + 1 admitted; after an idle gap of 7.5 s again exactly 2) -/

example : admittedTokensK "k" 1000000000 1000000000
    (runTagged AnyStore.ops (fun c p => p * 1000000000 / c) (.adaptive ⟨[], 0, 0, 0, 0, 0, 0, 1, 0, 0, []⟩) exHist2) = 2 := by
  decide

example : admittedTokensK "k" 9000000000 9000000000
    (runTagged AnyStore.ops (fun c p => p * 1000000000 / c) (.adaptive ⟨[], 0, 0, 0, 0, 0, 0, 1, 0, 0, []⟩) exHist2) = 2 := by
  decide

example : DomD 1000000000 2 := ⟨by decide, by decide, by decide⟩

end TcVerif

namespace TcVerif

/-! ### end-to-end form: the emission interval is the one `rate_limit` computes (C18: it is the floor) -/

/-- **C01 for `rate_limit` itself**: limits `(B, c, p)` in the domain D of the property, the interval
    computed by the (soft-float model of the) code, which by C18 is `p·10⁹ / c`. -/
theorem C01_window_bound_rate_limit (k : Key) (rs : List Req) (t0 : Int) (B c p : Int)
    (st : AnyStore) (hst : st.data = []) (hm : MonotoneFrom t0 rs)
    (hp1 : 1 ≤ p) (hp2 : p ≤ 9000000) (hc1 : 1 ≤ c) (hc2 : c ≤ p * 1000000000) (hB : 1 ≤ B)
    (hBE : B * (p * 1000000000 / c) ≤ TWO60)
    (hreqs : ∀ r ∈ rs, r.key = k → r.burst = B ∧ r.count = c ∧ r.period = p ∧ 0 ≤ r.qty ∧ 0 ≤ r.now ∧ r.now ≤ T_MAX)
    (t1 t2 : Int) (h12 : t1 ≤ t2) :
    admittedTokensK k t1 t2 (runTagged AnyStore.ops emissionInterval st rs) ≤ B + (t2 - t1) / (p * 1000000000 / c) := by
  have hE : emissionInterval c p = p * 1000000000 / c := C18_floor c p hp1 hp2 hc1 hc2
  have hE1 : 1 ≤ p * 1000000000 / c := by
    have := (Int.le_ediv_iff_mul_le (by omega : 0 < c)).mpr (by omega : 1 * c ≤ p * 1000000000)
    omega
  have hD : DomD (p * 1000000000 / c) B := ⟨hE1, hB, hBE⟩
  have hfix := fixedD_of_forall emissionInterval (p * 1000000000 / c) B k rs t0 hD hm (by
    intro r hr hk
    obtain ⟨h1, h2, h3, h4, h5, h6⟩ := hreqs r hr hk
    exact ⟨h1, by rw [h2, h3]; exact hE, ⟨h4, by omega, by omega, by omega⟩, h5, h6⟩)
  exact C01_window_bound emissionInterval k rs t0 _ B st hst hm hfix hD t1 t2 h12

end TcVerif
