/-
  C10 — Every request is answered exactly once, in order, even under back-pressure
  (the part about the actor pipeline; the RESP connection part is `C10Resp.lean`).

  Model: the actor LTS of `Model/Actor.lean`.  Every theorem holds in every reachable state:
  any number of clients, any programs, any capacity (`cap ≥ 1` is needed only for progress),
  any limiter, every interleaving, every point at which a client may drop its pending request
  (`cancel` from `sending` = before enqueue, `cancel` from `waiting` = after enqueue, before or
  after the reply was produced).
-/
import TcVerif.Lemmas.ActorToy
import TcVerif.Lemmas.ActorTotal
namespace TcVerif.Actor
variable {L Rq Rs : Type}
variable {M : Sys L Rq Rs} {n : Nat} {l0 : L} {s : State L Rq Rs}

/-- **C10 (exactly once).**  In every reachable state, for every request id: it is called at most
    once, enqueued at most once, processed at most once, finished (returned / cancelled / failed)
    at most once — in particular returned at most once and never both returned and failed; the
    queue holds no request twice and none that was already processed. -/
theorem C10_exactly_once (h : Reach M n l0 s) (id : Id) :
    (∀ {i j : Nat} {r r' : Rq}, s.log[i]? = some (.call id r) → s.log[j]? = some (.call id r') → i = j) ∧
    (∀ {i j : Nat} {r r' : Rq}, s.log[i]? = some (.enq id r) → s.log[j]? = some (.enq id r') → i = j) ∧
    (∀ {i j : Nat} {r r' : Rq} {o o' : Rs},
      s.log[i]? = some (.proc id r o) → s.log[j]? = some (.proc id r' o') → i = j) ∧
    (∀ {i j : Nat} {e e' : Event Rq Rs},
      s.log[i]? = some e → s.log[j]? = some e' → e.finishes id → e'.finishes id → i = j) ∧
    (∀ {i j : Nat} {o o' : Rs}, s.log[i]? = some (.ret id o) → s.log[j]? = some (.ret id o') → i = j ∧ o = o') ∧
    (∀ {i j : Nat} {o : Rs}, s.log[i]? = some (.ret id o) → s.log[j]? = some (.fail id) → False) ∧
    (s.queue.map (·.1)).Nodup ∧
    (∀ {r r' : Rq} {o : Rs}, (id, r) ∈ s.queue → Event.proc id r' o ∈ s.log → False) := by
  refine ⟨fun hi hj => call_unique h hi hj, fun hi hj => enq_unique h hi hj,
    fun hi hj => proc_unique h hi hj, fun hi hj h1 h2 => finish_unique h hi hj h1 h2, ?_, ?_, ?_,
    fun hq hp => queue_not_processed h hq hp⟩
  · intro i j o o' hi hj
    have : i = j := finish_unique h hi hj rfl rfl
    subst this
    rw [hi] at hj
    cases hj
    exact ⟨rfl, rfl⟩
  · intro i j o hi hj
    have : i = j := finish_unique h hi hj rfl rfl
    subst this
    rw [hi] at hj
    cases hj
  · have hN := inv_enq_nodup h
    rw [inv_fifo h, List.map_append] at hN
    exact (List.nodup_append.mp hN).2.1

/-- **C10 (back-pressure).**  `enq` is enabled only below `cap` (a caller whose message does not
    fit stays `sending`: it waits); the queue never exceeds `cap`; a `sending` client stays
    `sending` at the same request — nothing is dropped — until its own `enq`, `cancel` or `fail`;
    and its `enq` puts exactly that request at the tail of the queue. -/
theorem C10_backpressure (h : Reach M n l0 s) :
    s.queue.length ≤ M.cap ∧
    (∀ c s', Step M s (.enq c) s' → s.queue.length < M.cap) ∧
    (∀ c, M.cap ≤ s.queue.length → step? M s (.enq c) = none) ∧
    (∀ c pc lb s', s.clients[c]? = some ⟨pc, .sending⟩ → Step M s lb s' →
      s'.clients[c]? = some ⟨pc, .sending⟩ ∨ lb = .enq c ∨ lb = .cancel c ∨ lb = .fail c) ∧
    (∀ c pc s', s.clients[c]? = some ⟨pc, .sending⟩ → Step M s (.enq c) s' →
      ∃ r, (M.prog c)[pc]? = some r ∧ s'.queue = s.queue ++ [((c, pc), r)] ∧
        s'.clients[c]? = some ⟨pc, .waiting⟩) := by
  refine ⟨inv_queue_le_cap h, ?_, ?_, ?_, ?_⟩
  · intro c s' hst
    cases hst
    assumption
  · intro c hfull
    cases hs : step? M s (.enq c) with
    | none => rfl
    | some s' =>
      have hst := step?_iff.mp hs
      cases hst
      omega
  · intro c pc lb s' hc hst
    have key : ∀ (c' : Nat) (y : Cl), (s.clients.set c' y)[c]? = some ⟨pc, .sending⟩ ∨ c' = c := by
      intro c' y
      by_cases hcc : c' = c
      · exact Or.inr hcc
      · left; simp only [List.getElem?_set, hcc, if_false]; exact hc
    cases hst
    case call c' pc' r hc' hr =>
      rcases key c' ⟨pc', .sending⟩ with h1 | rfl
      · exact Or.inl h1
      · rw [hc] at hc'; cases hc'
    case enq c' pc' r hc' hr hcap ha =>
      rcases key c' ⟨pc', .waiting⟩ with h1 | rfl
      · exact Or.inl h1
      · exact Or.inr (Or.inl rfl)
    case proc => exact Or.inl hc
    case actorPanic => exact Or.inl hc
    case ret c' pc' rs hc' hf =>
      rcases key c' ⟨pc' + 1, .idle⟩ with h1 | rfl
      · exact Or.inl h1
      · rw [hc] at hc'; cases hc'
    case cancelSend c' pc' hc' =>
      rcases key c' ⟨pc' + 1, .idle⟩ with h1 | rfl
      · exact Or.inl h1
      · exact Or.inr (Or.inr (Or.inl rfl))
    case cancelWait c' pc' hc' =>
      rcases key c' ⟨pc' + 1, .idle⟩ with h1 | rfl
      · exact Or.inl h1
      · exact Or.inr (Or.inr (Or.inl rfl))
    case failSend c' pc' hc' ha =>
      rcases key c' ⟨pc' + 1, .idle⟩ with h1 | rfl
      · exact Or.inl h1
      · exact Or.inr (Or.inr (Or.inr rfl))
    case failWait c' pc' hc' ha hf =>
      rcases key c' ⟨pc' + 1, .idle⟩ with h1 | rfl
      · exact Or.inl h1
      · exact Or.inr (Or.inr (Or.inr rfl))
  · intro c pc s' hc hst
    generalize hl : Label.enq c = lb at hst
    cases hst <;> cases hl
    rename_i pc' r hcap ha hc' hr
    rw [hc] at hc'
    cases hc'
    refine ⟨r, hr, rfl, ?_⟩
    simp only [List.getElem?_set_self (lt_of_getElem? hc)]

/-- **C10 (no deadlock).**  In every reachable state (queue capacity ≥ 1):
    1. if the actor is alive and some client is not finished (it is `sending`/`waiting` or has
       requests left), a transition that makes progress — `call`, `enq`, `proc` (`actorPanic` if
       the library call panics) or `ret`, not merely `cancel` — is enabled;
    2. if the actor is dead, an unfinished client can still move on (`call`, `ret` or `fail`);
    3. `measure` strictly decreases on every transition, so every run from `s` has at most
       `measure M s` steps;
    4. in a final state (no transition enabled) with the actor alive the queue is empty and every
       request of every program has been finished exactly once, by a `ret` (with the response of
       its `proc`, see `C09_delivery`) or by the client's own `cancel`. -/
theorem C10_no_deadlock (h : Reach M n l0 s) (hcap : 1 ≤ M.cap) :
    (s.alive = true → ∀ c cl, s.clients[c]? = some cl → (cl.st ≠ .idle ∨ cl.pc < (M.prog c).length) →
      ∃ lb s', Step M s lb s' ∧ lb.progress) ∧
    (s.alive = false → ∀ c cl, s.clients[c]? = some cl → (cl.st ≠ .idle ∨ cl.pc < (M.prog c).length) →
      ∃ lb s', Step M s lb s' ∧ (lb = .call c ∨ lb = .ret c ∨ lb = .fail c)) ∧
    (∀ lb s', Step M s lb s' → measure M s' < measure M s) ∧
    (∀ lbs s', Run M s lbs s' → lbs.length ≤ measure M s) ∧
    (s.alive = true → (∀ lb s', ¬ Step M s lb s') →
      s.queue = [] ∧
      ∀ c, c < n → ∀ i, i < (M.prog c).length →
        ∃ (k : Nat) (e : Event Rq Rs), s.log[k]? = some e ∧
          ((∃ o, e = Event.ret (c, i) o) ∨ e = Event.cancelSend (c, i) ∨ e = Event.cancelWait (c, i)) ∧
          ∀ (k' : Nat) (e' : Event Rq Rs), s.log[k']? = some e' → e'.finishes (c, i) → k' = k) := by
  refine ⟨fun ha c cl hc hb => progress h hcap ha hc hb, ?_, fun lb s' hst => measure_decreases hst,
    fun lbs s' hr => by have := run_length_le_measure hr; omega, ?_⟩
  · intro ha c cl hc hb
    obtain ⟨pc, st⟩ := cl
    cases st with
    | idle =>
      have hlt : pc < (M.prog c).length := by
        rcases hb with h1 | h1
        · exact absurd rfl h1
        · exact h1
      exact ⟨.call c, _, .call hc (List.getElem?_eq_getElem hlt), Or.inl rfl⟩
    | sending => exact ⟨.fail c, _, .failSend hc ha, Or.inr (Or.inr rfl)⟩
    | waiting =>
      cases hf : findReply (c, pc) s.replies with
      | none => exact ⟨.fail c, _, .failWait hc ha hf, Or.inr (Or.inr rfl)⟩
      | some rs => exact ⟨.ret c, _, .ret hc hf, Or.inr (Or.inl rfl)⟩
  · intro ha hfinal
    have hidle : ∀ c cl, s.clients[c]? = some cl → cl.st = .idle ∧ (M.prog c).length ≤ cl.pc := by
      intro c cl hc
      by_cases hb : cl.st ≠ .idle ∨ cl.pc < (M.prog c).length
      · obtain ⟨lb, s', hst, _⟩ := progress h hcap ha hc hb
        exact absurd hst (hfinal lb s')
      · constructor
        · by_cases h1 : cl.st = .idle
          · exact h1
          · exact absurd (Or.inl h1) hb
        · by_cases h2 : cl.pc < (M.prog c).length
          · exact absurd (Or.inr h2) hb
          · omega
    constructor
    · cases hq : s.queue with
      | nil => rfl
      | cons x q =>
        obtain ⟨id, r⟩ := x
        cases hst : M.lim.step s.lim r with
        | none => exact absurd (.actorPanic ha hq hst) (hfinal .actorPanic _)
        | some p => exact absurd (.proc ha hq hst) (hfinal .proc _)
    · intro c hc i hi
      have hlen := inv_clients_length h
      have hget : s.clients[c]? = some s.clients[c] := List.getElem?_eq_getElem (by omega)
      obtain ⟨_, hpc⟩ := hidle c _ hget
      obtain ⟨e, he, hfin⟩ := inv_finished h c _ i hget (by omega)
      obtain ⟨k, hk⟩ := getElem?_of_mem he
      refine ⟨k, e, hk, ?_, fun k' e' hk' hf' => finish_unique h hk' hk hf' hfin⟩
      cases e <;> simp only [Event.finishes] at hfin
      case ret id o => subst hfin; exact Or.inl ⟨o, rfl⟩
      case cancelSend id => subst hfin; exact Or.inr (Or.inl rfl)
      case cancelWait id => subst hfin; exact Or.inr (Or.inr rfl)
      case fail id =>
        have := (inv_dead h).2.2 _ he
        rw [ha] at this
        cases this

/-- progress with a total limiter (the real code's C08; the GCRA model is total): one of
    `call` / `enq` / `proc` / `ret` is enabled -/
theorem C10_no_deadlock_total (htot : Total M.lim) (h : Reach M n l0 s) (hcap : 1 ≤ M.cap)
    {c : Nat} {cl : Cl} (hc : s.clients[c]? = some cl)
    (hbusy : cl.st ≠ .idle ∨ cl.pc < (M.prog c).length) :
    ∃ lb s', Step M s lb s' ∧ ((∃ c', lb = .call c') ∨ (∃ c', lb = .enq c') ∨ lb = .proc ∨ ∃ c', lb = .ret c') := by
  obtain ⟨lb, s', hst, hp⟩ := progress h hcap (inv_alive_of_total htot h) hc hbusy
  refine ⟨lb, s', hst, ?_⟩
  cases lb with
  | call c' => exact Or.inl ⟨c', rfl⟩
  | enq c' => exact Or.inr (Or.inl ⟨c', rfl⟩)
  | proc => exact Or.inr (Or.inr (Or.inl rfl))
  | ret c' => exact Or.inr (Or.inr (Or.inr ⟨c', rfl⟩))
  | actorPanic =>
    generalize hl : Label.actorPanic = lb at hst
    cases hst <;> cases hl
    rename_i hs'
    exact absurd hs' (htot _ _)
  | cancel c' => exact hp.elim
  | fail c' => exact hp.elim

/-- **C10 (FIFO).**  Requests are processed in the order they were enqueued: the sequence of
    enqueued requests is the sequence of processed requests followed by the queue content; and, on
    log positions, a request enqueued before a processed one was processed before it. -/
theorem C10_fifo (h : Reach M n l0 s) :
    enqLog s.log = (procLog s.log).map (fun p => (p.1, p.2.1)) ++ s.queue ∧
    (∀ {i j q : Nat} {a b : Id} {ra rb rb' : Rq} {ob : Rs},
      s.log[i]? = some (.enq a ra) → s.log[j]? = some (.enq b rb) → i < j →
      s.log[q]? = some (.proc b rb' ob) → ∃ p, p < q ∧ ∃ oa, s.log[p]? = some (.proc a ra oa)) :=
  ⟨inv_fifo h, fun hi hj hij hq => fifo_pos h hi hj hij hq⟩

/-! ### cancellation -/

theorem findReply_dropReply_ne {id id' : Id} (hne : id' ≠ id) (l : List (Id × Rs)) :
    findReply id' (dropReply id l) = findReply id' l := by
  induction l with
  | nil => rfl
  | cons p ps ih =>
    simp only [dropReply]
    split
    · rename_i hp
      rw [ih]
      simp only [findReply]
      rw [if_neg]
      rw [hp]; exact fun h => hne h.symm
    · simp only [findReply, ih]

/-- **C10 (cancel non-interference).**
    (a) *Cancelling before `enq`* is indistinguishable from the request never having been in the
        program: the `cancel` transition (and the `call` before it) changes nothing but the
        client's own position and the ghost log — queue, limiter, slots and every other client are
        untouched — and in every later state the request is neither enqueued, nor queued, nor
        processed, nor answered, so the `proc` log (hence, by `C09_sequential`/`C09_delivery`, the
        limiter accounting and every response) does not contain it.
    (b) *Cancelling after `enq`* leaves the queue, the limiter and the `proc` log exactly as if the
        client had kept waiting: the transition touches only the client's own position and its own
        one-shot slot; the request stays enqueued and is processed in its turn; the `proc` step
        computes the same limiter state and logs the same response whether or not the slot was
        abandoned; and in every reachable state the `proc` log is the sequential run of the limiter
        over a prefix of the `enq` log — it depends on which requests were enqueued and in which
        order, and on nothing else. -/
theorem C10_cancel_noninterference (h : Reach M n l0 s) :
    -- (a) local effect of `call` and of `cancel` before `enq`
    (∀ c s', Step M s (.call c) s' →
      s'.queue = s.queue ∧ s'.lim = s.lim ∧ s'.replies = s.replies ∧ s'.abandoned = s.abandoned ∧
      s'.alive = s.alive ∧ procLog s'.log = procLog s.log ∧ enqLog s'.log = enqLog s.log ∧
      ∀ c', c' ≠ c → s'.clients[c']? = s.clients[c']?) ∧
    (∀ c pc s', s.clients[c]? = some ⟨pc, .sending⟩ → Step M s (.cancel c) s' →
      s'.queue = s.queue ∧ s'.lim = s.lim ∧ s'.replies = s.replies ∧ s'.abandoned = s.abandoned ∧
      s'.alive = s.alive ∧ procLog s'.log = procLog s.log ∧ enqLog s'.log = enqLog s.log ∧
      (∀ c', c' ≠ c → s'.clients[c']? = s.clients[c']?) ∧ Event.cancelSend (c, pc) ∈ s'.log) ∧
    -- (a) global: a request cancelled before `enq` never reaches the limiter
    (∀ id, Event.cancelSend id ∈ s.log →
      (∀ r, Event.enq id r ∉ s.log) ∧ (∀ r, (id, r) ∉ s.queue) ∧
      (∀ r o, Event.proc id r o ∉ s.log) ∧ (∀ o, Event.ret id o ∉ s.log)) ∧
    -- (b) local effect of `cancel` after `enq`
    (∀ c pc s', s.clients[c]? = some ⟨pc, .waiting⟩ → Step M s (.cancel c) s' →
      s'.queue = s.queue ∧ s'.lim = s.lim ∧ s'.alive = s.alive ∧
      procLog s'.log = procLog s.log ∧ enqLog s'.log = enqLog s.log ∧
      (∀ id, id ≠ (c, pc) → findReply id s'.replies = findReply id s.replies) ∧
      (∀ c', c' ≠ c → s'.clients[c']? = s.clients[c']?) ∧ Event.cancelWait (c, pc) ∈ s'.log) ∧
    -- (b) the `proc` step does not depend on the slots
    (∀ (s2 s' : State L Rq Rs), s2.queue = s.queue → s2.lim = s.lim → s2.alive = s.alive →
      Step M s .proc s' → ∃ s2', Step M s2 .proc s2' ∧ s2'.queue = s'.queue ∧ s2'.lim = s'.lim ∧
        s2'.log.getLast? = s'.log.getLast?) ∧
    -- (b) global: a request cancelled after `enq` is still queued or has been processed
    (∀ id, Event.cancelWait id ∈ s.log → ∃ r, (id, r) ∈ s.queue ∨ ∃ o, Event.proc id r o ∈ s.log) ∧
    -- (a)+(b) global: the `proc` log is determined by the sequence of enqueued requests alone
    ((procLog s.log).map (fun p => (p.1, p.2.1)) = (enqLog s.log).take (procLog s.log).length ∧
     seqRun M.lim l0 (((enqLog s.log).take (procLog s.log).length).map (·.2))
       = some (s.lim, (procLog s.log).map (·.2.2))) := by
  refine ⟨?_, ?_, ?_, ?_, ?_, ?_, ?_⟩
  · intro c s' hst
    generalize hl : Label.call c = lb at hst
    cases hst <;> cases hl
    refine ⟨rfl, rfl, rfl, rfl, rfl, by simp, by simp, ?_⟩
    intro c' hne
    simp only [List.getElem?_set, if_neg (Ne.symm hne)]
  · intro c pc s' hc hst
    generalize hl : Label.cancel c = lb at hst
    cases hst <;> cases hl
    · rename_i pc' hc'
      rw [hc] at hc'
      cases hc'
      refine ⟨rfl, rfl, rfl, rfl, rfl, by simp, by simp, ?_, by simp⟩
      intro c' hne
      simp only [List.getElem?_set, if_neg (Ne.symm hne)]
    · rename_i hc'; rw [hc] at hc'; cases hc'
  · intro id hcs
    have hne : ∀ r, Event.enq id r ∉ s.log := fun r he => no_enq_of_cancelSend h hcs he
    have hnp : ∀ r o, Event.proc id r o ∉ s.log := by
      intro r o hp
      obtain ⟨k, hk⟩ := getElem?_of_mem hp
      obtain ⟨j, _, hj⟩ := proc_after_enq h hk
      exact hne r (mem_of_getElem? hj)
    refine ⟨hne, ?_, hnp, ?_⟩
    · intro r hq
      apply hne r
      apply mem_enqLog.mp
      rw [inv_fifo h]
      exact List.mem_append_right _ hq
    · intro o hr
      obtain ⟨k, hk⟩ := getElem?_of_mem hr
      obtain ⟨j, _, r, hj⟩ := ret_after_proc h hk
      exact hnp r o (mem_of_getElem? hj)
  · intro c pc s' hc hst
    generalize hl : Label.cancel c = lb at hst
    cases hst <;> cases hl
    · rename_i hc'; rw [hc] at hc'; cases hc'
    · rename_i pc' hc'
      rw [hc] at hc'
      cases hc'
      refine ⟨rfl, rfl, rfl, by simp, by simp, ?_, ?_, by simp⟩
      · intro id hne
        exact findReply_dropReply_ne hne _
      · intro c' hne
        simp only [List.getElem?_set, if_neg (Ne.symm hne)]
  · intro s2 s' hq hl ha hst
    generalize hlb : Label.proc = lb at hst
    cases hst <;> cases hlb
    rename_i id r q l' rs ha' hq' hs'
    exact ⟨_, .proc (ha.trans ha') (hq.trans hq') (by rw [hl]; exact hs'), rfl, rfl, by simp⟩
  · intro id hcw
    obtain ⟨k, hk⟩ := getElem?_of_mem hcw
    obtain ⟨j, _, r, hj⟩ := cancelWait_after_enq h hk
    have hm : (id, r) ∈ enqLog s.log := mem_enqLog.mpr (mem_of_getElem? hj)
    rw [inv_fifo h] at hm
    rcases List.mem_append.mp hm with hp | hq
    · simp only [procReqs, List.mem_map] at hp
      obtain ⟨⟨id', r', o⟩, hmem, heq⟩ := hp
      cases heq
      exact ⟨r', Or.inr ⟨o, mem_procLog.mp hmem⟩⟩
    · exact ⟨r, Or.inl hq⟩
  · have hF := inv_fifo h
    have hlen : (procLog s.log).length = (procReqs s.log).length := by simp [procReqs]
    have htake : (enqLog s.log).take (procLog s.log).length = procReqs s.log := by
      rw [hF, hlen, List.take_left]
    refine ⟨htake.symm, ?_⟩
    rw [htake]
    have := inv_sequential h
    rw [procReqs, List.map_map]
    exact this

/-! ### non-vacuity: the concrete run of `ActorToy.lean` (2 clients, capacity 1) -/

/-- back-pressure: with client 0's message in the queue (capacity 1) client 1's `enq` is disabled,
    client 1 stays `sending`; after the `proc` it is enabled -/
example :
    (run? toySys (init 2 0) [.call 0, .call 1, .enq 0]).bind (fun s => step? toySys s (.enq 1)) = none ∧
    ((run? toySys (init 2 0) [.call 0, .call 1, .enq 0]).map (fun s => s.clients[1]?)) = some (some ⟨0, .sending⟩) ∧
    ((run? toySys (init 2 0) [.call 0, .call 1, .enq 0, .proc, .enq 1]).map (fun s => s.queue)) = some [((1, 0), 1)] := by
  decide

/-- the whole run: client 1 cancels after `enq`; its request is processed all the same (second
    entry of the `proc` log, reply discarded), client 0 is answered; the final state is final
    (none of the labels of the two clients is enabled) and 8 steps ≤ measure of the initial state -/
example :
    (run? toySys (init 2 0) toyLabels).map (fun s => procLog s.log) =
      some [((0, 0), 1, true), ((1, 0), 1, false)] ∧
    (run? toySys (init 2 0) toyLabels).map (fun s => (s.replies, s.abandoned, s.queue)) =
      some ([], [(1, 0)], []) ∧
    ((run? toySys (init 2 0) toyLabels).map (fun s =>
      ([Label.call 0, .call 1, .enq 0, .enq 1, .proc, .actorPanic, .ret 0, .ret 1, .cancel 0, .cancel 1,
        .fail 0, .fail 1].all (fun lb => (step? toySys s lb).isNone))) = some true) ∧
    toyLabels.length ≤ measure toySys (init 2 0 : State Nat Nat Bool) :=
  ⟨by decide, by decide, by decide, by decide⟩

end TcVerif.Actor
