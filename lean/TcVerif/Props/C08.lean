/-
  C08 — `rate_limit` is total: no input panics it, errors are the documented ones.

  Model: `TcVerif/Model/Gcra.lean` (`rateLimitE`, `decision`), bit-precise saturating i64
  arithmetic (`TcVerif/Model/Basic.lean`), the built-in stores of `TcVerif/Model/Store.lean`.
  The emission interval `E` (the u64 nanoseconds that `Rate::period().as_nanos()` holds) is
  universally quantified over `0 ≤ E < 2^64`, so nothing here depends on the floating-point
  computation of the interval.  Every theorem quantifies over ALL i64 `max_burst`,
  `count_per_period`, `period`, `quantity`, all keys, all timestamps 1970 ≤ now ≤ 2200 and
  all i64 stored values.
-/
import TcVerif.Lemmas.TotalArith
import TcVerif.Lemmas.TotalStore
import TcVerif.Lemmas.TotalLoop
namespace TcVerif
open Data

/-- the input domain of C08: i64 limits and quantity, `E` a u64, a timestamp between 1970
    and 2200, and whatever i64 the store returned for the key (`none` = fresh key) -/
structure C08Input (E : Int) (r : Req) (tv : Option Int) : Prop where
  hE : 0 ≤ E ∧ E < 18446744073709551616
  hnow : 0 ≤ r.now ∧ r.now ≤ T2200
  hburst : inI64 r.burst
  hcount : inI64 r.count
  hperiod : inI64 r.period
  hqty : inI64 r.qty
  hstored : ∀ v, tv = some v → inI64 v

theorem C08Input.reqT {E : Int} {r : Req} {tv : Option Int} (h : C08Input E r tv)
    (hq : 0 ≤ r.qty) (hb : 0 < r.burst) : ReqT E r tv :=
  ⟨h.hE.1, h.hnow.1, h.hnow.2, hb, hq, h.hstored⟩

/-! ### 1. the two parameter errors -/

/-- A negative quantity gives the negative-quantity error (checked FIRST, whatever the limits
    are); otherwise a non-positive `max_burst`, `count_per_period` or `period` gives the
    invalid-parameters error.  In both cases the store is left untouched and not even read.
    For every store implementation `S`, every state, every `E`, every request. -/
theorem C08_errors {σ : Type} (S : StoreOps σ) (s : σ) (E : Int) (r : Req) :
    (r.qty < 0 →
      (rateLimitE S s E r).2.1 = .errNegativeQuantity ∧ (rateLimitE S s E r).1 = s ∧
      (rateLimitE S s E r).2.2 = []) ∧
    (0 ≤ r.qty → (r.burst ≤ 0 ∨ r.count ≤ 0 ∨ r.period ≤ 0) →
      (rateLimitE S s E r).2.1 = .errInvalidRateLimit ∧ (rateLimitE S s E r).1 = s ∧
      (rateLimitE S s E r).2.2 = []) := by
  constructor
  · intro hq
    simp only [rateLimitE, hq, if_true]
    exact ⟨trivial, trivial, trivial⟩
  · intro hq hl
    have hq' : ¬ r.qty < 0 := by omega
    simp only [rateLimitE, hq', hl, if_false, if_true]
    exact ⟨trivial, trivial, trivial⟩

/-- the parameter errors are returned ONLY in those cases: with valid parameters the call
    goes to the store loop -/
theorem C08_valid_enters_loop {σ : Type} (S : StoreOps σ) (s : σ) (E : Int) (r : Req) (hv : r.valid) :
    rateLimitE S s E r = rlLoop S MAX_RETRIES s E r [] := by
  obtain ⟨h1, h2, h3, h4⟩ := hv
  have hq : ¬ r.qty < 0 := by omega
  have hl : ¬ (r.burst ≤ 0 ∨ r.count ≤ 0 ∨ r.period ≤ 0) := by omega
  simp only [rateLimitE, hq, hl, if_false]

example : (rateLimitE AMap.ops AMap.empty 18446744073709551615 ⟨"k", I64_MIN, I64_MIN, I64_MIN, I64_MIN, T2200⟩).2.1
    = .errNegativeQuantity := by decide
example : (rateLimitE AMap.ops AMap.empty 18446744073709551615 ⟨"k", I64_MAX, 0, I64_MAX, I64_MAX, T2200⟩).2.1
    = .errInvalidRateLimit := by decide
example : (rateLimitE AMap.ops AMap.empty 0 ⟨"k", 0, 1, 1, 0, 0⟩).2.1 = .errInvalidRateLimit := by decide

/-! ### 2. the fields of a result -/

/-- With valid parameters the decision is a result (never an error) with `limit = max_burst`,
    `0 ≤ remaining ≤ limit`, `reset_after` and `retry_after` non-negative i64 values,
    `retry_after = 0` exactly when admitted; the TTL handed to the store is a non-negative
    i64 and the new TAT an i64.  (`count_per_period`, `period` only enter through `E`.) -/
theorem C08_decision_fields {E : Int} {r : Req} {tv : Option Int} (h : C08Input E r tv)
    (hq : 0 ≤ r.qty) (hb : 0 < r.burst) :
    ∃ a lim rem reset retry,
      (decision E r tv).outcome = .ok a lim rem reset retry ∧
      lim = r.burst ∧
      (0 ≤ rem ∧ rem ≤ r.burst) ∧
      (0 ≤ reset ∧ reset ≤ I64_MAX) ∧
      (0 ≤ retry ∧ retry ≤ I64_MAX) ∧
      (retry = 0 ↔ a = true) ∧
      a = (decision E r tv).allowed ∧
      (0 ≤ (decision E r tv).ttl ∧ (decision E r tv).ttl ≤ I64_MAX) ∧
      inI64 (decision E r tv).newTat := by
  have hT := h.reqT hq hb
  refine ⟨dAllowed E r tv, r.burst, dRemaining E r tv, dReset E r tv, dRetry E r tv, ?_⟩
  rw [decision_eq]
  refine ⟨rfl, rfl, remaining_range hT, reset_range E r tv, retry_range E r tv, retry_zero_iff hT, rfl,
    ttl_range E r tv, ?_⟩
  have := new_facts hT
  have := tat_facts hT
  have := eNs_range hT.hE
  have := hT.now0
  show inI64 (dNew E r tv)
  unfold inI64
  bndT

/-- the same through the accessor functions -/
theorem C08_outcome_accessors {E : Int} {r : Req} {tv : Option Int} (h : C08Input E r tv)
    (hq : 0 ≤ r.qty) (hb : 0 < r.burst) :
    let o := (decision E r tv).outcome
    o.isOk = true ∧ o.limit = r.burst ∧ 0 ≤ o.remaining ∧ o.remaining ≤ o.limit ∧
    0 ≤ o.resetNs ∧ 0 ≤ o.retryNs ∧ (o.retryNs = 0 ↔ o.allowed = true) := by
  obtain ⟨a, lim, rem, reset, retry, ho, h1, h2, h3, h4, h5, _⟩ := C08_decision_fields h hq hb
  intro o
  have : o = .ok a lim rem reset retry := ho
  rw [this]
  simp only [Outcome.isOk, Outcome.limit, Outcome.remaining, Outcome.resetNs, Outcome.retryNs, Outcome.allowed]
  subst h1
  exact ⟨trivial, rfl, h2.1, h2.2, h3.1, h4.1, h5⟩

/-- extreme inputs: everything saturates -/
def C08.rExt : Req := ⟨"k", I64_MAX, 1, I64_MAX, 1, T2200⟩

example : C08Input 18446744073709551615 C08.rExt (some I64_MIN) :=
  ⟨by decide, by decide, by decide, by decide, by decide, by decide,
   fun v hv => by cases hv; decide⟩
example : (decision 18446744073709551615 C08.rExt none).outcome = .ok true I64_MAX 0 I64_MAX 0 := by decide
example : (decision 18446744073709551615 C08.rExt (some I64_MAX)).outcome = .ok true I64_MAX 0 I64_MAX 0 := by decide
example : (decision 0 { C08.rExt with qty := I64_MAX } (some I64_MAX)).outcome
    = .ok false I64_MAX 0 1965253636854775807 1965253636854775807 := by decide
example : (decision 3 { C08.rExt with qty := I64_MAX, now := 0 } none).outcome = .ok true I64_MAX 1 I64_MAX 0 := by decide

/-! ### 3. a first request of at most `max_burst` tokens is admitted -/

/-- On a fresh key a request of `0 ≤ quantity ≤ max_burst` is admitted — for EVERY emission
    interval, including those for which `E·quantity` and / or `E·(max_burst-1)` saturate. -/
theorem C08_fresh_admits {E : Int} {r : Req} {tv : Option Int} (h : C08Input E r tv)
    (htv : tv = none) (hq : 0 ≤ r.qty) (hqb : r.qty ≤ r.burst) (hb : 0 < r.burst) :
    (decision E r none).allowed = true := by
  subst htv
  rw [decision_eq]
  exact fresh_allowed (h.reqT hq hb) hqb

example : C08Input 18446744073709551615 { C08.rExt with qty := I64_MAX, now := 0 } none :=
  ⟨by decide, by decide, by decide, by decide, by decide, by decide, fun v hv => by cases hv⟩
example : (decision 18446744073709551615 { C08.rExt with qty := I64_MAX, now := 0 } none).allowed = true := by decide
example : (decision 4611686018427387904 { C08.rExt with burst := 3, qty := 3, now := 1 } none).allowed = true := by decide

/-! ### 4. with the built-in stores no internal error is ever returned -/

/-- On every built-in store (abstract map, periodic, adaptive, probabilistic; any configuration
    and cleanup-scheduling state) whose table has unique keys, the write that follows the
    `get` of the same call succeeds at the first attempt: the result is the decision taken on
    what `get` returned, the loop issues the read and at most one (successful) write, and the
    internal "max retries" error is never produced. -/
theorem C08_no_internal (st : AnyStore) (hd : NodupKeys st.data) (E : Int) (r : Req) (hv : r.valid) :
    (rateLimitE AnyStore.ops st E r).2.1 = (decision E r (AnyStore.ops.get st r.key r.now)).outcome ∧
    (rateLimitE AnyStore.ops st E r).2.1.isOk = true ∧
    (rateLimitE AnyStore.ops st E r).2.1 ≠ .errInternal ∧
    (rateLimitE AnyStore.ops st E r).2.2 = passTrace st E r := by
  obtain ⟨h1, _, h3⟩ := rateLimitE_anyStore st hd E r hv
  refine ⟨h1, ?_, ?_, h3⟩
  · rw [h1, decision_eq]; rfl
  · rw [h1, decision_eq]; intro hc; cases hc

/-- unique keys (what a `HashMap` guarantees; true of every freshly built store) are
    preserved by every store operation and by every `rate_limit` call, so `C08_no_internal`
    applies along whole histories -/
theorem C08_nodup_preserved (st : AnyStore) (hd : NodupKeys st.data) :
    (∀ op : SOp, NodupKeys (applyOp AnyStore.ops st op).1.data) ∧
    (∀ (E : Int) (r : Req), NodupKeys (rateLimitE AnyStore.ops st E r).1.data) :=
  ⟨applyOp_nodup st hd, rateLimitE_nodup st hd⟩

/-- along any history of `rate_limit` calls (any timestamps, any parameters) starting from a
    table with unique keys, no call returns the internal error -/
theorem C08_no_internal_history (ei : Int → Int → Int) (rs : List Req) (st : AnyStore) (hd : NodupKeys st.data) :
    ∀ o ∈ runE AnyStore.ops ei st rs, o ≠ .errInternal := by
  induction rs generalizing st with
  | nil => intro o ho; simp [runE] at ho
  | cons r rs ih =>
    intro o ho
    simp only [runE, List.mem_cons] at ho
    rcases ho with ho | ho
    · subst ho
      by_cases hq : r.qty < 0
      · rw [((C08_errors AnyStore.ops st (ei r.count r.period) r).1 hq).1]; intro hc; cases hc
      · by_cases hl : r.burst ≤ 0 ∨ r.count ≤ 0 ∨ r.period ≤ 0
        · rw [((C08_errors AnyStore.ops st (ei r.count r.period) r).2 (by omega) hl).1]; intro hc; cases hc
        · exact (C08_no_internal st hd _ r ⟨by omega, by omega, by omega, by omega⟩).2.2.1
    · exact ih _ (rateLimitE_nodup st hd _ r) o ho

example : NodupKeys (AnyStore.prob ⟨[], 0, 1⟩).data := trivial
example : (rateLimitE AnyStore.ops (.prob ⟨[⟨"k", I64_MAX, T2200 + 1⟩], 0, 1⟩) 18446744073709551615 C08.rExt).2 =
    (.ok true I64_MAX 0 I64_MAX 0,
     [.get "k" T2200 (some I64_MAX), .cas "k" I64_MAX I64_MAX I64_MAX T2200 true]) := by decide

/-! ### 5. the sites at which the Rust code could panic with overflow checks on -/

theorem tdiv_inI64 {a b : Int} (ha : inI64 a) (hb : 0 < b) : inI64 (Int.tdiv a b) := by
  unfold inI64 at *
  by_cases h0 : 0 ≤ a
  · have h1 := Int.tdiv_le_self (a := a) b h0
    have h2 := Int.tdiv_nonneg h0 (by omega : (0:Int) ≤ b)
    bndT
  · have h1 := Int.tdiv_le_self (a := -a) b (by omega)
    have h2 := Int.tdiv_nonneg (a := -a) (b := b) (by omega) (by omega)
    rw [Int.neg_tdiv] at h1 h2
    bndT

/-- Every arithmetic operation of `rate_limit` that is not saturating, in source order, with
    the side-condition under which it cannot panic (overflow checks on):
    `max_burst - 1`; the `as i64` of the interval and of `now`; every `saturating_*` result is
    an i64; the division is evaluated only for a positive divisor (no division by zero, no
    `MIN / -1`) and its quotient is an i64; the three `as u64` casts have non-negative
    arguments; `now + ttl` (the `SystemTime + Duration` of the stores) stays below
    `T2200 + i64::MAX` ≈ year 2492. -/
theorem C08_panic_sites {E : Int} {r : Req} {tv : Option Int} (h : C08Input E r tv)
    (hq : 0 ≤ r.qty) (hb : 0 < r.burst) :
    -- `max_burst - 1`
    inI64 (r.burst - 1) ∧
    -- `as_nanos().min(i64::MAX) as i64`, `duration.as_nanos() as i64`
    (0 ≤ eNs E ∧ inI64 (eNs E)) ∧ inI64 r.now ∧
    -- the saturating operations
    inI64 (tauNs E r.burst) ∧ inI64 (dMinTat E r) ∧ inI64 (dTat E r tv) ∧ inI64 (dInc E r) ∧
    inI64 (dNew E r tv) ∧ inI64 (dAllowAt E r tv) ∧ inI64 (dPad E r) ∧
    inI64 (satSub (dNew E r tv) r.now) ∧ inI64 (satAdd r.now (tauNs E r.burst)) ∧
    inI64 (dRoom E r tv) ∧ inI64 (satSub (dCur E r tv) r.now) ∧ inI64 (satSub (dAllowAt E r tv) r.now) ∧
    -- `room_until_limit / emission_interval_ns`
    (dRemaining E r tv = if eNs E > 0 then max (Int.tdiv (dRoom E r tv) (eNs E)) 0 else 0) ∧
    (eNs E > 0 → eNs E ≠ 0 ∧ eNs E ≠ -1 ∧ inI64 (Int.tdiv (dRoom E r tv) (eNs E))) ∧
    -- `… .max(0) as u64` (ttl, reset_after, retry_after) and `now + ttl`
    (0 ≤ (decision E r tv).ttl ∧ (decision E r tv).ttl ≤ U64_MAX) ∧
    r.now + (decision E r tv).ttl ≤ T2200 + I64_MAX ∧
    (0 ≤ dReset E r tv ∧ dReset E r tv ≤ U64_MAX) ∧
    (0 ≤ dRetry E r tv ∧ dRetry E r tv ≤ U64_MAX) := by
  have hT := h.reqT hq hb
  have he := eNs_range hT.hE
  have hbu := h.hburst
  have hn := h.hnow
  have htau := tau_facts hT.hE hb
  have htat := tat_facts hT
  have hnew := new_facts hT
  have hpad := pad_facts (r := r) hT.hE hb
  have hinc := inc_facts (r := r) hT.hE hq
  have httl := ttl_range E r tv
  have hreset := reset_range E r tv
  have hretry := retry_range E r tv
  have hroom : inI64 (dRoom E r tv) := by unfold dRoom satSub; exact clamp_range _
  have httl' : (decision E r tv).ttl = dTtl E r tv := by rw [decision_eq]
  rw [httl']
  refine ⟨?_, ⟨he.1, ?_⟩, ?_, ?_, ?_, ?_, ?_, ?_, allowAt_facts E r tv, ?_, clamp_range _, clamp_range _,
    hroom, clamp_range _, clamp_range _, rfl, fun hpos => ⟨by omega, by omega, tdiv_inI64 hroom hpos⟩,
    ⟨httl.1, ?_⟩, ?_, ⟨hreset.1, ?_⟩, ⟨hretry.1, ?_⟩⟩
  all_goals first
    | (unfold dMinTat satSub; exact clamp_range _)
    | (unfold U64_MAX; bndT)
    | bndT

example : C08Input 18446744073709551615 C08.rExt (some I64_MAX) :=
  ⟨by decide, by decide, by decide, by decide, by decide, by decide,
   fun v hv => by cases hv; decide⟩
example : (decision 18446744073709551615 C08.rExt (some I64_MAX)).ttl = I64_MAX := by decide
example : dRoom 3 { C08.rExt with qty := I64_MAX, now := 0 } none = 3 := by decide

/-! ### the whole call on a built-in store -/

/-- **C08 for the built-in stores.**  Every call returns one of: the negative-quantity error
    (exactly when `quantity < 0`), the invalid-parameters error (exactly when `quantity ≥ 0`
    and a limit is non-positive), or a well-formed result; never the internal error. -/
theorem C08_rate_limit_total (st : AnyStore) (hd : NodupKeys st.data) {E : Int} {r : Req}
    (h : C08Input E r (AnyStore.ops.get st r.key r.now)) :
    let o := (rateLimitE AnyStore.ops st E r).2.1
    (r.qty < 0 → o = .errNegativeQuantity) ∧
    (0 ≤ r.qty → (r.burst ≤ 0 ∨ r.count ≤ 0 ∨ r.period ≤ 0) → o = .errInvalidRateLimit) ∧
    (r.valid →
      o.isOk = true ∧ o.limit = r.burst ∧ 0 ≤ o.remaining ∧ o.remaining ≤ o.limit ∧
      0 ≤ o.resetNs ∧ 0 ≤ o.retryNs ∧ (o.retryNs = 0 ↔ o.allowed = true) ∧
      (AnyStore.ops.get st r.key r.now = none → r.qty ≤ r.burst → o.allowed = true)) := by
  intro o
  refine ⟨fun hq => ((C08_errors _ st E r).1 hq).1, fun hq hl => ((C08_errors _ st E r).2 hq hl).1, ?_⟩
  intro hv
  have ho : o = (decision E r (AnyStore.ops.get st r.key r.now)).outcome := (C08_no_internal st hd E r hv).1
  obtain ⟨a1, a2, a3, a4, a5, a6, a7⟩ := C08_outcome_accessors h hv.1 hv.2.1
  rw [ho]
  refine ⟨a1, a2, a3, a4, a5, a6, a7, fun hfresh hqb => ?_⟩
  have := C08_fresh_admits h hfresh hv.1 hqb hv.2.1
  rw [hfresh]
  rw [decision_eq] at this ⊢
  exact this

/-! ### any store implementation: the errors are the documented ones -/

/-- **C08 for an arbitrary `Store` implementation** (one that returns i64 values, as the trait
    forces): whatever `get` answers and however often the conditional writes fail, a call with
    valid parameters ends — after at most `MAX_RETRIES` passes, by structural recursion on the
    retry budget — with a well-formed result or with the documented internal
    "max retries exceeded" error; nothing else. -/
theorem C08_any_store {σ : Type} (S : StoreOps σ) (s : σ) {E : Int} {r : Req}
    (h : ∀ s', C08Input E r (S.get s' r.key r.now)) (hv : r.valid) :
    (rateLimitE S s E r).2.1 = .errInternal ∨ Outcome.wellFormed r (rateLimitE S s E r).2.1 := by
  rw [C08_valid_enters_loop S s E r hv]
  exact rlLoop_outcome S E r (fun s' => (h s').reqT hv.1 hv.2.1) _ s []

example : (rateLimitE refusingStore () 18446744073709551615 C08.rExt).2.1 = .errInternal := by decide
example : (rateLimitE refusingStore () 18446744073709551615 C08.rExt).2.2.length = 20 := by decide
example : Outcome.wellFormed C08.rExt (rateLimitE AMap.ops AMap.empty 18446744073709551615 C08.rExt).2.1 := by
  decide

end TcVerif
