/-
  C09 — One shared limiter: concurrent clients on any protocol are linearizable.

  Model: the actor LTS of `Model/Actor.lean` (every transport reaches the limiter only through a
  clone of ONE `RateLimiterHandle`, i.e. through `call`; independent connections are independent
  clients).  Every theorem is about every reachable state: any number `n` of clients, any
  programs `M.prog`, any capacity `M.cap`, any limiter (`M.lim`, in particular the GCRA model over any
  store), any initial limiter state `l0`, runs of any length, every interleaving of client steps
  and actor steps.

  The witness linearization is the `proc` log: the list of `(request id, request, response)` in
  the order the actor processed them.
-/
import TcVerif.Lemmas.ActorToy
import TcVerif.Lemmas.ActorBurst
namespace TcVerif.Actor
variable {L Rq Rs : Type}
variable {M : Sys L Rq Rs} {n : Nat} {l0 : L} {s : State L Rq Rs}

/-- **C09 (sequential).**  The current limiter state and all responses computed so far are exactly
    those of running the limiter sequentially over the requests of the `proc` log, in log order. -/
theorem C09_sequential (h : Reach M n l0 s) :
    seqRun M.lim l0 ((procLog s.log).map (·.2.1)) = some (s.lim, (procLog s.log).map (·.2.2)) :=
  inv_sequential h

/-- **C09 (delivery).**  Every `ret` delivers exactly the response computed at that request's
    (unique, earlier) `proc`, and the processed request is the one in the client's program. -/
theorem C09_delivery (h : Reach M n l0 s) {k : Nat} {id : Id} {rs : Rs}
    (hk : s.log[k]? = some (.ret id rs)) :
    ∃ j, j < k ∧ ∃ r, s.log[j]? = some (.proc id r rs) ∧ (M.prog id.1)[id.2]? = some r ∧
      ∀ j' r' rs', s.log[j']? = some (.proc id r' rs') → j' = j ∧ r' = r ∧ rs' = rs := by
  obtain ⟨j, hjk, r, hj⟩ := ret_after_proc h hk
  refine ⟨j, hjk, r, hj, (inv_reqOK h).1 _ (mem_of_getElem? hj), ?_⟩
  intro j' r' rs' hj'
  have : j' = j := proc_unique h hj' hj
  subst this
  rw [hj] at hj'
  cases hj'
  exact ⟨rfl, rfl, rfl⟩

/-- **C09 (order).**  The `proc` order respects (a) each client's program order and (b) real-time
    precedence: if `r₁` returned / was cancelled / failed before `r₂` was called and both are
    processed, `r₁` is processed first; (c) a request is processed after its `call` and `enq`,
    and (d) before its `ret`. -/
theorem C09_order (h : Reach M n l0 s) :
    (∀ {c i1 i2 p q : Nat} {r1 r2 : Rq} {o1 o2 : Rs},
      s.log[p]? = some (.proc (c, i1) r1 o1) → s.log[q]? = some (.proc (c, i2) r2 o2) → i1 < i2 → p < q) ∧
    (∀ {i j p q : Nat} {e1 : Event Rq Rs} {id1 id2 : Id} {r1 r2 r2' : Rq} {o1 o2 : Rs},
      s.log[i]? = some e1 → e1.finishes id1 → s.log[j]? = some (.call id2 r2) → i < j →
      s.log[p]? = some (.proc id1 r1 o1) → s.log[q]? = some (.proc id2 r2' o2) → p < q) ∧
    (∀ {p : Nat} {id : Id} {r : Rq} {o : Rs}, s.log[p]? = some (.proc id r o) →
      ∃ a e, a < e ∧ e < p ∧ s.log[a]? = some (.call id r) ∧ s.log[e]? = some (.enq id r)) ∧
    (∀ {k : Nat} {id : Id} {o : Rs}, s.log[k]? = some (.ret id o) →
      ∃ p, p < k ∧ ∃ r, s.log[p]? = some (.proc id r o)) := by
  refine ⟨fun hp hq hlt => program_order h hp hq hlt,
    fun hi hf hj hij hp hq => realtime_order h hi hf hj hij hp hq, ?_, fun hk => ret_after_proc h hk⟩
  intro p id r o hp
  obtain ⟨e, hep, he⟩ := proc_after_enq h hp
  obtain ⟨a, hae, ha⟩ := enq_after_call h he
  exact ⟨a, e, hae, hep, ha, he⟩

/-- **C09 (linearizability).**  There is a total order `lin` on the processed requests (the `proc`
    log) that extends every client's program order and real-time precedence, such that the
    sequential execution of one limiter in that order produces the current limiter state and
    exactly the responses that were returned to the clients. -/
theorem C09_linearizable (h : Reach M n l0 s) :
    ∃ lin : List (Id × Rq × Rs),
      -- `lin` lists the processed requests, each exactly once
      (lin.map (·.1)).Nodup ∧
      (∀ id r rs, (id, r, rs) ∈ lin ↔ Event.proc id r rs ∈ s.log) ∧
      -- they are the requests of the clients' programs
      (∀ c i r rs, ((c, i), r, rs) ∈ lin → (M.prog c)[i]? = some r) ∧
      -- one limiter, run sequentially in that order, gives these responses and the current state
      seqRun M.lim l0 (lin.map (·.2.1)) = some (s.lim, lin.map (·.2.2)) ∧
      -- every response returned to a client is the one of its request in `lin`
      (∀ (k : Nat) (id : Id) (rs : Rs), s.log[k]? = some (Event.ret id rs) →
        ∃ r, (id, r, rs) ∈ lin ∧ (M.prog id.1)[id.2]? = some r) ∧
      -- `lin` extends program order
      (∀ (a b c i1 i2 : Nat) (r1 r2 : Rq) (o1 o2 : Rs), lin[a]? = some ((c, i1), r1, o1) →
        lin[b]? = some ((c, i2), r2, o2) → i1 < i2 → a < b) ∧
      -- `lin` extends real-time precedence
      (∀ (a b : Nat) (id1 id2 : Id) (r1 r2 : Rq) (o1 o2 : Rs) (i j : Nat) (e1 : Event Rq Rs) (r2' : Rq),
        lin[a]? = some (id1, r1, o1) → lin[b]? = some (id2, r2, o2) →
        s.log[i]? = some e1 → e1.finishes id1 → s.log[j]? = some (Event.call id2 r2') → i < j → a < b) := by
  refine ⟨procLog s.log, procLog_ids_nodup h, fun id r rs => mem_procLog, ?_, C09_sequential h, ?_, ?_, ?_⟩
  · intro c i r rs hm
    exact (inv_reqOK h).1 _ (mem_procLog.mp hm)
  · intro k id rs hk
    obtain ⟨j, _, r, hj, hr, _⟩ := C09_delivery h hk
    exact ⟨r, mem_procLog.mpr (mem_of_getElem? hj), hr⟩
  · intro a b c i1 i2 r1 r2 o1 o2 ha hb hlt
    exact procLog_lt_of_log_lt ha hb (fun p q hp hq => program_order h hp hq hlt)
  · intro a b id1 id2 r1 r2 o1 o2 i j e1 r2' ha hb hi hf hj hij
    exact procLog_lt_of_log_lt ha hb (fun p q hp hq => realtime_order h hi hf hj hij hp hq)

/-! ### the burst corollary -/

theorem seqRun_length {lim : Limiter L Rq Rs} {l lf : L} {rs : List Rq} {os : List Rs}
    (h : seqRun lim l rs = some (lf, os)) : os.length = rs.length := by
  induction rs generalizing l os with
  | nil => simp only [seqRun] at h; cases h; rfl
  | cons r rs ih =>
    simp only [seqRun] at h
    split at h
    · cases h
    · split at h
      · cases h
      · rename_i h2
        cases h
        simp [ih h2]

/-- **C09 (burst), generic form.**  `N` clients each issue ONE request `r0` (the same key, limits,
    quantity and timestamp).  If the SEQUENTIAL limiter allows exactly `min N B` of `N` copies of
    `r0` (for the GCRA model on a fresh key with burst `B`, quantity 1 and one timestamp this is the
    single-key fact "a fresh bucket allows exactly the first `B`"; it is the hypothesis `hseq`, to
    be discharged by the caller for the concrete limiter), then in every run in which all `N`
    requests have been processed — whatever the interleaving, the queue capacity and the
    cancellations — exactly `min N B` of the computed responses are allowed. -/
theorem C09_burst {isAllowed : Rs → Bool} {r0 : Rq} {N B : Nat}
    (hprog : ∀ c, M.prog c = [r0])
    (hseq : ∀ lf os, seqRun M.lim l0 (List.replicate N r0) = some (lf, os) →
      (os.filter isAllowed).length = min N B)
    (h : Reach M N l0 s)
    (hall : (procLog s.log).length = N) :
    (((procLog s.log).map (·.2.2)).filter isAllowed).length = min N B := by
  have hreq : (procLog s.log).map (·.2.1) = List.replicate N r0 := by
    rw [← hall]
    apply List.eq_replicate_iff.mpr
    refine ⟨by simp, ?_⟩
    intro r hr
    obtain ⟨⟨⟨c, i⟩, r', rs⟩, hm, rfl⟩ := List.mem_map.mp hr
    have := (inv_reqOK h).1 _ (mem_procLog.mp hm)
    simp only [Event.reqOK, hprog] at this
    cases i with
    | zero => simpa using this.symm
    | succ i => simp at this
  have := C09_sequential h
  rw [hreq] at this
  exact hseq _ _ this

theorem nodup_map_of_inj_on {α β : Type} {f : α → β} {l : List α} (hn : l.Nodup)
    (hinj : ∀ x ∈ l, ∀ y ∈ l, f x = f y → x = y) : (l.map f).Nodup := by
  rw [List.Nodup, List.pairwise_map]
  exact List.Pairwise.imp_of_mem (fun hx hy hne heq => hne (hinj _ hx _ hy heq)) hn

/-- "all `N` requests are processed" in the form "each client's request is in the `proc` log"
    gives the length hypothesis of `C09_burst` -/
theorem procLog_length_of_all {r0 : Rq} {N : Nat} (hprog : ∀ c, M.prog c = [r0]) (h : Reach M N l0 s)
    (hall : ∀ c, c < N → ∃ rs, Event.proc (c, 0) r0 rs ∈ s.log) : (procLog s.log).length = N := by
  have hN := procLog_ids_nodup h
  -- the client numbers of the processed requests
  have hcl : ((procLog s.log).map (·.1.1)).Nodup := by
    have hinj : ∀ x ∈ (procLog s.log).map (·.1), ∀ y ∈ (procLog s.log).map (·.1), x.1 = y.1 → x = y := by
      intro x hx y hy hxy
      have h0 : ∀ z ∈ (procLog s.log).map (·.1), z.2 = 0 := by
        intro z hz
        obtain ⟨⟨⟨c, i⟩, r', rs⟩, hm, rfl⟩ := List.mem_map.mp hz
        have := (inv_reqOK h).1 _ (mem_procLog.mp hm)
        simp only [Event.reqOK, hprog] at this
        cases i with
        | zero => rfl
        | succ i => simp at this
      exact Prod.ext hxy (by rw [h0 x hx, h0 y hy])
    have := nodup_map_of_inj_on hN hinj
    rw [List.map_map] at this
    exact this
  have hsub : ∀ c ∈ (procLog s.log).map (·.1.1), c ∈ List.range N := by
    intro c hc
    obtain ⟨⟨⟨c', i⟩, r', rs⟩, hm, rfl⟩ := List.mem_map.mp hc
    obtain ⟨k, hk⟩ := getElem?_of_mem (mem_procLog.mp hm)
    obtain ⟨e, _, he⟩ := proc_after_enq h hk
    have := (inv_okFor h _ (mem_of_getElem? he)).1
    rw [inv_clients_length h] at this
    simpa using this
  have hsup : ∀ c ∈ List.range N, c ∈ (procLog s.log).map (·.1.1) := by
    intro c hc
    obtain ⟨rs, hrs⟩ := hall c (by simpa using hc)
    exact List.mem_map.mpr ⟨((c, 0), r0, rs), mem_procLog.mpr hrs, rfl⟩
  have hperm : ((procLog s.log).map (·.1.1)).Perm (List.range N) :=
    (List.perm_ext_iff_of_nodup hcl List.nodup_range).mpr (fun c => ⟨hsub c, hsup c⟩)
  simpa using hperm.length_eq

/-- **C09 (burst), GCRA instance.**  `N` clients — on whichever transports — each issue ONE unit
    request on the same fresh key with the same limits and the same timestamp, against the GCRA
    model over any store kind / configuration (initially empty).  Domain hypotheses: burst
    `B ≥ 1`, emission interval `E = emissionInterval count period ≥ 1 ns`, `B·E ≤ 2^60 ns`
    (≈ 36 years), timestamp between 1970 and 2100 — inside it no saturation occurs and refill
    within one instant is nil.  Then in every run in which all `N` requests have been processed,
    exactly `min N B` of them were allowed. -/
theorem C09_burst_gcra {M : Sys AnyStore Req Outcome} {N : Nat} {l0 : AnyStore}
    {s : State AnyStore Req Outcome} (r0 : Req) (E B : Int)
    (hM : M.lim = gcraLimiter) (hprog : ∀ c, M.prog c = [r0]) (hl0 : l0.data = [])
    (hq : r0.qty = 1) (hb : r0.burst = B) (hcount : 0 < r0.count) (hperiod : 0 < r0.period)
    (hei : emissionInterval r0.count r0.period = E) (hE : 1 ≤ E) (hB : 1 ≤ B) (hBE : B * E ≤ TWO60)
    (hn0 : 0 ≤ r0.now) (hn1 : r0.now ≤ T_MAX)
    (h : Reach M N l0 s) (hall : (procLog s.log).length = N) :
    (((procLog s.log).map (·.2.2)).filter Outcome.allowed).length = min N B.toNat := by
  have hstep : StepD E B r0.now r0 :=
    ⟨⟨hE, hB, hBE⟩, hb, ⟨by omega, by omega, hcount, hperiod⟩, Int.le_refl _, hn0, hn1⟩
  refine C09_burst (isAllowed := Outcome.allowed) (B := B.toNat) hprog ?_ h hall
  intro lf os hseq
  rw [hM, seqRun_gcra] at hseq
  have hos := congrArg (fun p => p.2) (Option.some.inj hseq)
  simp only at hos
  rw [← hos]
  exact gcra_unit_burst r0 E B N l0 hl0 hq hei hstep

/-! ### non-vacuity: a concrete run (2 clients, capacity 1, back-pressure and a cancel) -/

example : (run? toySys (init 2 0) [.call 0, .call 1, .enq 0]).bind (fun s => step? toySys s (.enq 1)) = none := by
  decide

example : (run? toySys (init 2 0) toyLabels).map (fun s => (procLog s.log, s.lim, s.replies)) =
    some ([((0, 0), 1, true), ((1, 0), 1, false)], 1, []) := by
  decide

/-- `C09_burst` applied to the concrete run: `min 2 1 = 1` of the two requests is allowed -/
example : ∃ s, Reach toySys 2 0 s ∧ (((procLog s.log).map (·.2.2)).filter id).length = min 2 1 := by
  obtain ⟨s, hs, hlen, _⟩ := toy_reach
  refine ⟨s, hs, C09_burst (B := 1) (r0 := 1) (fun _ => rfl) ?_ hs hlen⟩
  intro lf os h
  have : seqRun toyLim 0 (List.replicate 2 1) = some (1, [true, false]) := by decide
  rw [show toySys.lim = toyLim from rfl, this] at h
  cases h
  decide

/-- GCRA instance, evaluated: 3 simultaneous unit requests on a fresh key with burst 2 (1 per 60 s),
    capacity 1, probabilistic store: exactly 2 are allowed — here the first two to be processed -/
example :
    let r0 : Req := ⟨"k", 2, 1, 60, 1, 1700000000000000000⟩
    let M : Sys AnyStore Req Outcome := { lim := gcraLimiter, cap := 1, prog := fun _ => [r0] }
    (run? M (init 3 (.prob ⟨[], 0, 3⟩))
        [.call 2, .call 0, .call 1, .enq 1, .proc, .enq 2, .proc, .enq 0, .ret 2, .proc, .ret 0, .ret 1]).map
      (fun s => (procLog s.log).map (fun p => (p.1, p.2.2.allowed))) =
      some [((1, 0), true), ((2, 0), true), ((0, 0), false)] := by
  decide

/-- **tie to `main.rs` / `store.rs`** (regenerated from the source on every run): exactly one limiter
    is created, one `Metrics` instance is built, and every one of the three transports is started
    with a handle that is a `clone()` of that one limiter - so all transports feed the single
    actor whose behaviour the theorems above describe.  (`store.rs` spawns one actor per store-kind
    branch of a `match`, i.e. exactly one at run time.) -/
theorem C09_tie_single_limiter :
    Gen.MAIN_CREATE_LIMITER_CALLS = 1 ∧ Gen.MAIN_TRANSPORT_STARTS = 3 ∧
    Gen.MAIN_HANDLES_CLONED_FROM_LIMITER = 3 ∧ Gen.MAIN_METRICS_BUILDS = 1 ∧ Gen.STORE_SPAWN_CALLS = 3 := by decide

end TcVerif.Actor
