/-
  C16 — Denied-key tracking is bounded, never overstates, and exports safely.
  Property theorems only; helper lemmas are in `TcVerif/Lemmas/MetricsTop.lean` and
  `TcVerif/Lemmas/MetricsEscape.lean`.

  `Run max stream table`: `table` results from the denial stream `stream` (oldest first, keys of any
  length) by `ValidStep`s from the empty table, for EVERY tie-breaking of every cleanup.
  `trueCount stream k` is the ghost number of denials of `k`.  All theorems hold for every tracker
  size `max` (the server only builds trackers with `1 ≤ max ≤ 10000`, see `C16_clamp`).
-/
import TcVerif.Lemmas.MetricsTop
import TcVerif.Lemmas.MetricsEscape

namespace TcVerif.Metrics
open TcVerif.Gen

/-- after every update the map holds at most `3*max` keys; transiently, inside one update (after
    the insert, before the cleanup), at most `3*max + 1` -/
theorem C16_size_bound {max : Nat} {s : List Key} {t : Table} (h : Run max s t) :
    t.length ≤ 3 * max ∧ ∀ k : Key, (bumpKey t k).length ≤ 3 * max + 1 :=
  ⟨(run_inv h).2.1, run_inner_bound h⟩

/-- no entry ever has a count above the true number of denials of its key (and every entry has
    been denied at least once, with a key of at most 256 bytes, keys distinct) -/
theorem C16_never_overstates {max : Nat} {s : List Key} {t : Table} (h : Run max s t) :
    (∀ k n, (k, n) ∈ t → 1 ≤ n ∧ n ≤ trueCount s k ∧ k.length ≤ 256) ∧
    (∀ k, cnt t k ≤ trueCount s k) ∧ KeysNodup t := by
  obtain ⟨hn, _, hall⟩ := run_inv h
  refine ⟨fun k n hm => hall (k, n) hm, ?_, hn⟩
  intro k
  by_cases hp : 0 < cnt t k
  · exact (hall _ (mem_of_cnt_pos hn hp)).2.1
  · omega

/-- while the number of distinct denied keys (of at most 256 bytes) seen so far is within the
    configured number, the table is exact: every key has its true count, the table has exactly
    one entry per distinct key, and every valid report lists every key with its true count -/
theorem C16_exact_while_few {max : Nat} {s : List Key} {t : Table} (h : Run max s t)
    (hfew : distinctShort s ≤ max) :
    (∀ k, cnt t k = if k.length ≤ 256 then trueCount s k else 0) ∧
    t.length = distinctShort s ∧
    ∀ report, ValidReport max t report →
      (∀ k ∈ s, k.length ≤ 256 → (k, trueCount s k) ∈ report) ∧
      report.length = distinctShort s := by
  have hcover : ∀ k ∈ s, k.length ≤ 256 → k ∈ distinctKeys (shortKeys s) := by
    intro k hk hl
    rw [mem_distinctKeys, mem_shortKeys]; exact ⟨hk, hl⟩
  have hex : Exact s t := run_exact h _ hfew hcover
  obtain ⟨hn, _, hall⟩ := run_inv h
  have hlen : t.length = distinctShort s := by
    have hn' : (t.map (fun e => e.1)).Nodup := hn
    have := length_eq_of_nodup_of_mem_iff (b := distinctKeys (shortKeys s))
      hn' (nodup_distinctKeys _) (by
        intro x
        rw [mem_distinctKeys, mem_shortKeys]
        constructor
        · intro hx
          obtain ⟨e, he, rfl⟩ := List.mem_map.mp hx
          obtain ⟨h1, h2, h3⟩ := hall e he
          have : 0 < s.count e.1 := by unfold trueCount at h2; omega
          exact ⟨List.count_pos_iff.mp this, h3⟩
        · rintro ⟨hx, hl⟩
          apply mem_keys_of_cnt_pos
          rw [hex x, if_pos hl]
          exact List.count_pos_iff.mpr hx)
    rw [List.length_map] at this
    exact this
  refine ⟨hex, hlen, ?_⟩
  intro report hr
  have hfit : t.length ≤ max := by omega
  refine ⟨?_, ?_⟩
  · intro k hk hl
    have hc : cnt t k = trueCount s k := by rw [hex k, if_pos hl]
    have hpos : 0 < cnt t k := by rw [hc]; exact List.count_pos_iff.mpr hk
    have := report_complete hr hfit _ (mem_of_cnt_pos hn hpos)
    rw [hc] at this; exact this
  · rw [hr.2.2.1, Nat.min_eq_right hfit, hlen]

/-- a key longer than 256 bytes leaves the table unchanged (as a map: tables are unordered) -/
theorem C16_long_keys_ignored {max : Nat} {t t' : Table} {k : Key} (hk : 256 < k.length)
    (h : ValidStep max t k t') :
    t'.Perm t ∧ (∀ x, cnt t' x = cnt t x) ∧ t'.length = t.length ∧ stepDet max t k = t := by
  rw [validStep_iff] at h
  have hp : t'.Perm t := by
    rcases h.2 with ⟨_, hp⟩ | ⟨hl, _⟩ | ⟨hl, _⟩
    · exact hp
    · omega
    · omega
  refine ⟨hp, fun x => cnt_perm hp x, hp.length_eq, ?_⟩
  unfold stepDet
  rw [maxKeyLength_eq, if_pos hk]

/-- every valid report (any tie-breaking): at most `max` keys, counts non-increasing, every omitted
    entry ≤ every listed one, every listed entry is a table entry whose count is at least 1 and at
    most the true number of denials, keys distinct -/
theorem C16_report {max : Nat} {s : List Key} {t : Table} {r : List (Key × Nat)}
    (h : Run max s t) (hr : ValidReport max t r) :
    r.length ≤ max ∧
    r.Pairwise (fun a b => a.2 ≥ b.2) ∧
    (∀ d ∈ t, d ∉ r → ∀ x ∈ r, d.2 ≤ x.2) ∧
    (∀ e ∈ r, e ∈ t ∧ 1 ≤ e.2 ∧ e.2 ≤ trueCount s e.1 ∧ e.1.length ≤ 256) ∧
    KeysNodup r := by
  obtain ⟨hn, hsub, hlen, hsorted, hom⟩ := hr
  refine ⟨by rw [hlen]; exact Nat.min_le_left _ _, hsorted, hom, ?_, hn⟩
  intro e he
  exact ⟨hsub e he, (run_inv h).2.2 e (hsub e he)⟩

/-- `max_denied_keys(n)`: the configured size is `min n 10000`; it is 0 exactly for `n = 0`, and
    then the tracker does not exist: nothing is ever kept and the export has no top-keys section.
    Otherwise the tracker is a `Run` of size `clampMax n ∈ 1..10000` (so all theorems above apply
    to it) -/
theorem C16_clamp (n : Nat) :
    clampMax n ≤ 10000 ∧ (n ≤ 10000 → clampMax n = n) ∧ (10000 ≤ n → clampMax n = 10000) ∧
    (clampMax n = 0 ↔ n = 0) ∧ (enabled (clampMax n) ↔ n ≠ 0) ∧
    (∀ m, MReachable n m → n = 0 →
      m.top = none ∧ keptKeys m = [] ∧ ∀ report, exportTop m.top report = []) ∧
    (∀ m, MReachable n m → n ≠ 0 →
      ∃ td stream, m.top = some td ∧ td.maxSize = clampMax n ∧ 1 ≤ td.maxSize ∧
        td.maxSize ≤ 10000 ∧ Run td.maxSize stream td.table) := by
  refine ⟨clampMax_le n, clampMax_of_le, clampMax_of_ge, clampMax_eq_zero_iff n, ?_, ?_, ?_⟩
  · unfold enabled; rw [ne_eq, clampMax_eq_zero_iff]
  · intro m hm h0
    have := disabled_top_none hm ((clampMax_eq_zero_iff n).mpr h0)
    refine ⟨this, by simp [keptKeys, this], fun report => by simp [exportTop, this]⟩
  · intro m hm h0
    have hc : clampMax n ≠ 0 := fun hh => h0 ((clampMax_eq_zero_iff n).mp hh)
    obtain ⟨td, stream, h1, h2, h3⟩ := enabled_top_run hm hc
    refine ⟨td, stream, h1, h2, ?_, ?_, by rw [h2]; exact h3⟩
    · rw [h2]; omega
    · rw [h2]; exact clampMax_le n

/-- the default configuration tracks 100 keys -/
theorem C16_default : buildDefault = build 100 ∧ (build 100).top = some ⟨[], 100⟩ := by
  constructor <;> rfl

/-- for EVERY key: the escaped text contains no LF and no CR; a label lexer started after the
    opening quote stops exactly at the quote the exporter wrote, whatever follows (so no key can
    close the quote early, add a label or add a line); the whole sample line contains exactly one
    LF, at its end -/
theorem C16_escape_safe (k : List Char) :
    '\n' ∉ escapeLabel k ∧ '\r' ∉ escapeLabel k ∧
    (∀ rest, scanLabel (escapeLabel k ++ '"' :: rest) = some (escapeLabel k, rest)) ∧
    (∀ rank count, ∃ body, exportKeyLine k rank count = body ++ ['\n'] ∧ '\n' ∉ body) := by
  refine ⟨fun h => (escapeLabel_no_break k _ h).1 rfl, fun h => (escapeLabel_no_break k _ h).2 rfl,
    ?_, ?_⟩
  · intro rest
    rw [scanLabel_escapeLabel, scanLabel_quote]
    simp [consFst]
  · intro rank count
    refine ⟨keyLinePrefix ++ escapeLabel k ++ '"' ::
      (rankInfix ++ natDigits (rank + 1) ++ closeInfix ++ natDigits count), ?_, ?_⟩
    · simp only [exportKeyLine, keyLineSuffix, List.append_assoc, List.cons_append]
    · intro h
      simp only [List.mem_append, List.mem_cons] at h
      rcases h with (h | h) | h | ((h | h) | h) | h
      · revert h; decide
      · exact (escapeLabel_no_break k _ h).1 rfl
      · revert h; decide
      · revert h; decide
      · exact (natDigits_plain _ _ h).2.2.1 rfl
      · revert h; decide
      · exact (natDigits_plain _ _ h).2.2.1 rfl

/-- shape of the sample line as a Prometheus parser sees it: after the fixed prefix
    `throttlecrab_top_denied_keys{key="` the key label value is exactly the escaped key, the rest
    is `,rank="<rank+1>"} <count>\n`, whose rank label value is exactly the decimal rank and whose
    tail `} <count>\n` contains no quote, comma or brace-open: exactly two labels, one sample -/
theorem C16_line_shape (k : List Char) (rank count : Nat) :
    exportKeyLine k rank count = keyLinePrefix ++ (escapeLabel k ++ '"' :: keyLineSuffix rank count) ∧
    scanLabel (escapeLabel k ++ '"' :: keyLineSuffix rank count)
      = some (escapeLabel k, keyLineSuffix rank count) ∧
    keyLineSuffix rank count
      = rankInfix ++ (natDigits (rank + 1) ++ '"' :: ('}' :: ' ' :: natDigits count ++ ['\n'])) ∧
    scanLabel (natDigits (rank + 1) ++ '"' :: ('}' :: ' ' :: natDigits count ++ ['\n']))
      = some (natDigits (rank + 1), '}' :: ' ' :: natDigits count ++ ['\n']) ∧
    (∀ x ∈ natDigits count, x.isDigit = true) := by
  refine ⟨by simp only [exportKeyLine, List.append_assoc], (C16_escape_safe k).2.2.1 _, ?_, ?_,
    natDigits_digit count⟩
  · simp only [keyLineSuffix, closeInfix, List.append_assoc, List.cons_append, List.nil_append]
  · apply scanLabel_plain_run
    intro x hx
    have := natDigits_plain _ _ hx
    exact ⟨this.1, this.2.1⟩

/-- the executable checkers used by the harness decide the relations (sound and complete) -/
theorem C16_checkers (max : Nat) (t : Table) (k : Key) (t' : Table) (r : List (Key × Nat)) :
    (checkStep max t k t' = true ↔ ValidStep max t k t') ∧
    (checkReport max t r = true ↔ ValidReport max t r) :=
  ⟨checkStep_iff max t k t', checkReport_iff max t r⟩

/-- the relations are inhabited: the deterministic tracker is a run on every stream, and its report
    is valid -/
theorem C16_inhabited (max : Nat) (s : List Key) :
    Run max s (runDet max s) ∧ ValidReport max (runDet max s) (reportDet max (runDet max s)) :=
  ⟨run_det max s, validReport_det (run_inv (run_det max s)).1⟩

/-! ## non-vacuity and instances -/

/-- tracker of size 1: four distinct keys overflow `3*1`, the cleanup keeps one of the top keys -/
example : runDet 1 [[1], [2], [1], [3], [4]] = [([1], 2)] := by decide

example : Run 1 [[1], [2], [1], [3], [4]] [([1], 2)] := run_det 1 _

/-- ties are broken either way: both tables are valid results of the same cleanup -/
example : ValidStep 1 [([1], 1), ([2], 1), ([3], 1)] [4] [([2], 1)] ∧
    ValidStep 1 [([1], 1), ([2], 1), ([3], 1)] [4] [([4], 1)] := by decide

/-- but a kept entry below a dropped one is not -/
example : ¬ ValidStep 1 [([1], 2), ([2], 1), ([3], 1)] [4] [([4], 1)] := by decide

/-- the table really does under-count after a cleanup (the property only forbids over-counting):
    key `[4]` was denied twice, its first denial was dropped by the cleanup, it reports 1 -/
example : Run 1 [[1], [2], [3], [4], [4]] [([1], 1), ([4], 1)] ∧
    trueCount [[1], [2], [3], [4], [4]] [4] = 2 := by
  have h1 : Run 1 [[1], [2], [3]] (runDet 1 [[1], [2], [3]]) := run_det 1 _
  have h2 : Run 1 ([[1], [2], [3]] ++ [[4]]) [([1], 1)] := Run.snoc h1 (by decide)
  exact ⟨Run.snoc (stream := [[1], [2], [3], [4]]) h2 (by decide), by decide⟩

/-- exact while few: 2 distinct keys, tracker of size 2 -/
example : distinctShort [[1], [2], [1], [1]] = 2 ∧ runDet 2 [[1], [2], [1], [1]] = [([1], 3), ([2], 1)] ∧
    reportDet 2 (runDet 2 [[1], [2], [1], [1]]) = [([1], 3), ([2], 1)] := by decide

/-- a 257-byte key is ignored, a 256-byte key is tracked -/
example (k : Key) (h : k.length = 257) : stepDet 5 [] k = [] := by
  unfold stepDet; rw [maxKeyLength_eq, if_pos (by omega)]

example (k : Key) (h : k.length = 256) : stepDet 5 [] k = [(k, 1)] := by
  unfold stepDet; rw [maxKeyLength_eq, growthFactor_eq, if_neg (by omega)]; rfl

/-- report checker instances -/
example : checkReport 2 [([1], 2), ([2], 1), ([], 1)] [([1], 2), ([], 1)] = true ∧
    checkReport 2 [([1], 2), ([2], 1), ([], 1)] [([1], 2), ([2], 1)] = true ∧
    checkReport 2 [([1], 2), ([2], 1), ([], 1)] [([2], 1), ([1], 2)] = false := by decide

/-- escaping instances: quote, backslash, LF, CR, TAB, ESC, DEL, U+0085, and a plain non-ASCII -/
example : String.ofList (escapeLabel "a\"\n\\\r\t\x01\x1b\x7f\u0085€".toList)
    = "a\\\"\\n\\\\\\r\\t\\x01\\x1b\\x7f\\x85€" := by decide

/-- the injection attempt `k",evil="1` stays inside the key label -/
example : scanLabel (escapeLabel "k\",evil=\"1".toList ++ "\",rank=\"1\"} 5\n".toList)
    = some ("k\\\",evil=\\\"1".toList, ",rank=\"1\"} 5\n".toList) := by decide

example : String.ofList (exportKeyLine "a\nb".toList 0 7)
    = "throttlecrab_top_denied_keys{key=\"a\\nb\",rank=\"1\"} 7\n" := by decide

/-- REMARK (not part of C16 as stated): `\r`, `\t` and `\xNN` are not escape sequences of the
    Prometheus text format 0.0.4 (only `\\`, `\"`, `\n` are); a STRICT parser rejects the sample
    line of a key containing e.g. a TAB, while the lenient lexer of the property accepts it -/
example : scanLabelStrict (escapeLabel ['a', '\t'] ++ ['"']) = none ∧
    scanLabel (escapeLabel ['a', '\t'] ++ ['"']) = some (['a', '\\', 't'], []) := by decide

end TcVerif.Metrics
