/-
  C14 — RESP encode/decode are inverse and every reply is exactly one frame.
  Property theorems only; helper lemmas are in `TcVerif/Lemmas/Resp*.lean`.
-/
import TcVerif.Lemmas.RespCmd

namespace TcVerif.Resp

open TcVerif.Gen

/-- every well-formed value (valid UTF-8 payloads, no CR LF inside simple strings / errors, sizes
    within the limits, integers in `i64`, nesting ≤ 128) decodes back to itself, consuming exactly
    its encoding, whatever follows it on the wire -/
theorem C14_roundtrip {v : Value} (h : WF v) (x : List UInt8) :
    parse (encode v ++ x) = .ok v (encode v).length := by
  rw [WF_iff] at h
  exact roundtrip v RESP_MAX_DEPTH h.1 h.2 x

/-- the same at any parser depth: a value of nesting depth `k` needs `128 - depth ≥ k` -/
theorem C14_roundtrip_at_depth {v : Value} {fuel : Nat} (h : sizesOk v = true)
    (hd : depth v ≤ fuel) (x : List UInt8) :
    decode fuel (encode v ++ x) = .ok v (encode v).length :=
  roundtrip v fuel h hd x

/-- whatever the decoder returns is well-formed (so it can be echoed, e.g. by PING) -/
theorem C14_parsed_wellformed {d : List UInt8} {v : Value} {n : Nat} (h : parse d = .ok v n) :
    WF v := by
  have := decode_wf RESP_MAX_DEPTH d v n h
  rw [WF_iff]; exact this

/-- every reply is exactly one frame: for every well-formed command value, every valid-UTF-8
    upper-casing result and every limiter answer (`i64` fields, error text valid UTF-8 without
    CR LF) the reply `r` is well-formed, hence `parse (encode r ++ x) = ok r |encode r|` -/
theorem C14_reply_single_frame {v : Value} {upper : Option (List UInt8)} {a : ActorAnswer}
    (hv : WF v) (hu : ∀ u, upper = some u → validUtf8 u = true) (ha : AnswerOK a) :
    WF (replyOf v upper a) ∧
    ∀ x, parse (encode (replyOf v upper a) ++ x)
      = .ok (replyOf v upper a) (encode (replyOf v upper a)).length :=
  ⟨replyOf_wf hv hu ha, fun x => C14_roundtrip (replyOf_wf hv hu ha) x⟩

/-- in particular for every command produced by the decoder -/
theorem C14_reply_single_frame_parsed {d : List UInt8} {v : Value} {n : Nat}
    {upper : Option (List UInt8)} {a : ActorAnswer} (hp : parse d = .ok v n)
    (hu : ∀ u, upper = some u → validUtf8 u = true) (ha : AnswerOK a) (x : List UInt8) :
    parse (encode (replyOf v upper a) ++ x)
      = .ok (replyOf v upper a) (encode (replyOf v upper a)).length :=
  (C14_reply_single_frame (C14_parsed_wellformed hp) hu ha).2 x

/-- the same for the connection model's `respond` (= `process_command`) -/
theorem C14_respond_single_frame {actor : ThrottleReq → ActorAnswer}
    {upperOf : List UInt8 → List UInt8} {v : Value} (hv : WF v)
    (hup : ∀ s, validUtf8 s = true → validUtf8 (upperOf s) = true)
    (hact : ∀ req, AnswerOK (actor req)) (x : List UInt8) :
    parse (encode (respond actor upperOf v) ++ x)
      = .ok (respond actor upperOf v) (encode (respond actor upperOf v)).length :=
  C14_roundtrip (respond_wf hv hup hact) x

/-! ## the hypotheses are satisfiable; the unrepaired reply is NOT one frame -/

example : WF (.array [.int (-5), .bulk (some b!"h\r\nllo"), .bulk none, .array [], .simple b!"OK"]) := by
  decide

example : parse (encode (.array [.int (-5), .bulk (some b!"h\r\nllo"), .bulk none, .array [],
      .simple b!"OK"]) ++ b!"+next")
    = .ok (.array [.int (-5), .bulk (some b!"h\r\nllo"), .bulk none, .array [], .simple b!"OK"]) 35 := by
  rfl

/-- repaired behaviour on the counter-example command `*1 $10 "foo\r\n+OK\r\n"`:
    one frame, CR/LF replaced by spaces -/
example : replyOf (.array [.bulk (some b!"foo\r\n+OK\r\n")]) (some b!"FOO\r\n+OK\r\n") (.err [])
    = .error b!"ERR unknown command 'FOO  +OK  '" := by rfl

/-- pinned (unrepaired) behaviour echoed the name raw: that error value is not `WF` and its
    encoding decodes to a DIFFERENT, shorter frame (the client then sees `+OK` and `'` as two
    more replies) -/
example : ¬ WF (.error b!"ERR unknown command 'FOO\r\n+OK\r\n'") := by decide

example : parse (encode (.error b!"ERR unknown command 'FOO\r\n+OK\r\n'"))
    = .ok (.error b!"ERR unknown command 'FOO") 27 := by rfl

end TcVerif.Resp
