/-
  C17 — Clock regression is tolerated: bounded cost, never a crash.

  What holds for ARBITRARY timestamp order (proved):
   * `C17_no_error`: every valid request is answered with a result - no panic outcome exists in
     the total model and no internal error arises on any built-in store, whatever the order;
   * `C17_regressed_sees_no_more`: from any state, a request stamped `t ≤ T` is offered no more
     budget than the same request stamped `T` (so an out-of-order request never gains from
     carrying an older timestamp than the latest one seen);
   * `C17_window_bound_partial`: on a store that never physically removes entries (the
     abstract map - e.g. `ProbabilisticStore` with cleanup probability 0) the C01 window bound
     holds for any timestamp order, even without the `+J` allowance.
  What does NOT hold (proved false, the witness is replayed on the implementation and
  listed as a known finding): the full window bound `max_burst + (t2-t1+J)/E` on stores that
  sweep - a sweep triggered at the latest time removes an entry that a regressed request
  would still have seen, which then counts as a never-seen key (`C17_window_bound_J_false`).
-/
import TcVerif.Lemmas.NonMonoWindow
import TcVerif.Props.C01
import TcVerif.Props.C08
namespace TcVerif
open Data

/-- **never an error, whatever the timestamp order** -/
theorem C17_no_error (ei : Int → Int → Int) (rs : List Req) (st : AnyStore) (hd : NodupKeys st.data) :
    ∀ p ∈ runTagged AnyStore.ops ei st rs, p.1.valid → p.2.isOk = true := by
  induction rs generalizing st with
  | nil => intro p hp; simp [runTagged] at hp
  | cons r rs ih =>
    intro p hp hv
    simp only [runTagged, List.mem_cons] at hp
    rcases hp with hp | hp
    · subst hp
      rw [(rateLimitE_anyStore st hd _ r hv).1]
      simp [decision, Outcome.isOk]
    · exact ih _ (rateLimitE_nodup st hd _ r) p hp hv

/-- head-room `now + τ - tat` offered by a cell at time `x` -/
def headroom (E B : Int) (c : Cell) (k : Key) (x : Int) : Int :=
  x + (B * E - E) - gTat E x (Cell.ops.get c k x)

theorem headroom_mono {E B : Int} (hD : DomD E B) (c : Cell) (hinv : CellInv E B c) (k : Key) (t T : Int) (h : t ≤ T) :
    headroom E B c k t ≤ headroom E B c k T := by
  have hE := hD.hE
  unfold headroom gTat effTat
  cases c with
  | none => simp [Cell.ops, Cell.live]; omega
  | some pr =>
    obtain ⟨v, e⟩ := pr
    by_cases hT : e > T
    · have ht : e > t := by omega
      simp [Cell.ops, Cell.live, hT, ht]; omega
    · by_cases ht : e > t
      · simp [Cell.ops, Cell.live, hT, ht]; omega
      · simp [Cell.ops, Cell.live, hT, ht]; omega

/-- **a regressed request sees no more budget**: from any state of a fixed-limits key, if the
    request stamped `t` is admitted then the same request stamped `T ≥ t` is admitted too, and a
    zero-quantity probe reports no more remaining tokens at `t` than at `T`. -/
theorem C17_regressed_sees_no_more {E B : Int} (c : Cell) (hinv : CellInv E B c) (r : Req) (t T : Int)
    (hT : ReqOK E B { r with now := T }) (ht : ReqOK E B { r with now := t }) (h : t ≤ T) :
    ((rateLimitE Cell.ops c E { r with now := t }).2.1.allowed = true →
      (rateLimitE Cell.ops c E { r with now := T }).2.1.allowed = true) ∧
    (r.qty = 0 → (rateLimitE Cell.ops c E { r with now := t }).2.1.remaining
                  ≤ (rateLimitE Cell.ops c E { r with now := T }).2.1.remaining) := by
  have hD := hT.dom
  have hE := hD.hE
  have hm := headroom_mono hD c hinv r.key t T h
  unfold headroom at hm
  -- the two decisions in ideal arithmetic
  have bounds : ∀ x, ∀ v, Cell.ops.get c r.key x = some v → -TWO62 ≤ v ∧ v ≤ V_MAX := by
    intro x v hg
    cases c with
    | none => simp [Cell.ops, Cell.live] at hg
    | some pr =>
      obtain ⟨v', e⟩ := pr
      obtain ⟨_, h1, h2⟩ := hinv
      by_cases hl : e > x
      · have : v = v' := by simp [Cell.ops, Cell.live, hl] at hg; omega
        subst this; constructor <;> bnd
      · simp [Cell.ops, Cell.live, hl] at hg
  have rT : ReqD E B { r with now := T } (Cell.ops.get c r.key T) :=
    ⟨hD, hT.burst, hT.valid.1, hT.now0, hT.now1, bounds T⟩
  have rt : ReqD E B { r with now := t } (Cell.ops.get c r.key t) :=
    ⟨hD, ht.burst, ht.valid.1, ht.now0, ht.now1, bounds t⟩
  obtain ⟨_, a2, _, _, _, _, a7, _, a9, _⟩ := decision_D rT (B * E - E) _ (E * r.qty) rfl rfl rfl
  obtain ⟨_, b2, _, _, _, _, b7, _, b9, _⟩ := decision_D rt (B * E - E) _ (E * r.qty) rfl rfl rfl
  rw [(rateLimitE_cell c E _ hT.valid).2, (rateLimitE_cell c E _ ht.valid).2]
  simp only at a2 a7 a9 b2 b7 b9 ⊢
  rw [a7, b7]
  constructor
  · intro hb
    exact a2.mpr (by have := b2.mp hb; omega)
  · intro hq
    rw [a9, b9]
    have hp : E * r.qty = 0 := by rw [hq]; simp
    rw [hp]
    simp only [Int.add_zero, ite_self]
    have mono : ∀ {x y : Int}, x ≤ y → max (Int.tdiv x E) 0 ≤ max (Int.tdiv y E) 0 := by
      intro x y hxy
      by_cases hx : 0 ≤ x
      · rw [Int.tdiv_eq_ediv_of_nonneg hx, Int.tdiv_eq_ediv_of_nonneg (by omega)]
        have := Int.ediv_le_ediv (by omega : 0 < E) hxy
        omega
      · have h1 : Int.tdiv x E ≤ 0 := by
          have : Int.tdiv x E = -(Int.tdiv (-x) E) := by rw [Int.neg_tdiv, Int.neg_neg]
          have h2 : 0 ≤ Int.tdiv (-x) E := by
            rw [Int.tdiv_eq_ediv_of_nonneg (by omega)]; exact Int.ediv_nonneg (by omega) (by omega)
          omega
        omega
    exact mono (by omega)

/-- all requests on key `k` are in the domain with limits `(B,E)`; other keys arbitrary; ANY order -/
def AllOKk (ei : Int → Int → Int) (E B : Int) (k : Key) (rs : List Req) : Prop :=
  AllOK ei E B (rs.filter (fun r => r.key = k))

/-- **window bound, any timestamp order, on a store that never physically removes entries** -/
theorem C17_window_bound_partial (ei : Int → Int → Int) (k : Key) (rs : List Req) (E B : Int)
    (hok : AllOKk ei E B k rs) (hD : DomD E B) (t1 t2 : Int) (h12 : t1 ≤ t2) :
    admittedTokensK k t1 t2 (runTagged AMap.ops ei AMap.empty rs) ≤ B + (t2 - t1) / E := by
  have hE : 0 < E := by have := hD.hE; omega
  have hc : admittedCreditK k E t1 t2 (runTagged AMap.ops ei AMap.empty rs) ≤ B * E + (t2 - t1) := by
    rw [admittedCreditK_filter, runTagged_project_any ei k rs AMap.empty none rfl]
    have := window_any_order _ none t1 t2 hok (by trivial : CellInv E B none)
    simp only [Cell.tatOr, Int.max_self] at this
    have hEle := hD.E_le
    omega
  rw [admittedCreditK_eq_tokens] at hc
  have h2 := (Int.le_ediv_iff_mul_le hE).mpr hc
  have h3 : (B * E + (t2 - t1)) / E = B + (t2 - t1) / E := by
    rw [Int.add_comm, Int.add_mul_ediv_right _ _ (by omega : E ≠ 0), Int.add_comm]
  omega

/-! ### the full statement is false on stores that sweep -/

/-- largest backward step of the clock along processing order (`latest` = latest timestamp so far) -/
def regressionJ : Int → List Req → Int
  | _, [] => 0
  | latest, r :: rs => max (latest - r.now) (regressionJ (max latest r.now) rs)

def historyJ : List Req → Int
  | [] => 0
  | r :: rs => regressionJ r.now rs

/-- the property's window clause, at full strength, for every built-in store -/
def C17_window_bound_J : Prop :=
  ∀ (ei : Int → Int → Int) (st : AnyStore) (k : Key) (rs : List Req) (E B : Int) (t1 t2 : Int),
    st.data = [] → AllOKk ei E B k rs → DomD E B → t1 ≤ t2 →
    admittedTokensK k t1 t2 (runTagged AnyStore.ops ei st rs) ≤ B + (t2 - t1 + historyJ rs) / E

/-- witness: burst 1, one token per second; key `k` at 10 s, then a fresh other key at 12 s (its write
    sweeps `k`'s entry, which expired at 11 s), back to `k` at 10 s (now a never-seen key), … :
    4 tokens admitted with timestamp 10 s, `J = 2 s`, bound `1 + (0 + 2)/1 = 3`. -/
def c17Witness : List Req :=
  [⟨"k", 1, 1, 1, 1, 10000000000⟩, ⟨"o1", 1, 1, 1, 1, 12000000000⟩,
   ⟨"k", 1, 1, 1, 1, 10000000000⟩, ⟨"o2", 1, 1, 1, 1, 12000000000⟩,
   ⟨"k", 1, 1, 1, 1, 10000000000⟩, ⟨"o3", 1, 1, 1, 1, 12000000000⟩,
   ⟨"k", 1, 1, 1, 1, 10000000000⟩]

theorem c17Witness_admits_four :
    admittedTokensK "k" 10000000000 10000000000
      (runTagged AnyStore.ops (fun c p => p * 1000000000 / c) (.prob ⟨[], 0, 1⟩) c17Witness) = 4 := by decide

theorem c17Witness_J : historyJ c17Witness = 2000000000 := by decide

theorem C17_window_bound_J_false : ¬ C17_window_bound_J := by
  intro h
  have hok : AllOKk (fun c p => p * 1000000000 / c) 1000000000 1 "k" c17Witness := by
    simp only [AllOKk, c17Witness, List.filter, AllOK]
    have one : ∀ t, 0 ≤ t → t ≤ T_MAX → ReqOK 1000000000 1 ⟨"k", 1, 1, 1, 1, t⟩ := fun t h0 h1 =>
      ⟨⟨by decide, by decide, by decide⟩, rfl, ⟨by simp, by simp, by simp, by simp⟩, h0, h1⟩
    exact ⟨one _ (by decide) (by decide), rfl, one _ (by decide) (by decide), rfl,
           one _ (by decide) (by decide), rfl, one _ (by decide) (by decide), rfl, trivial⟩
  have := h (fun c p => p * 1000000000 / c) (.prob ⟨[], 0, 1⟩) "k" c17Witness 1000000000 1
    10000000000 10000000000 rfl hok ⟨by decide, by decide, by decide⟩ (by decide)
  rw [c17Witness_admits_four, c17Witness_J] at this
  revert this
  decide

/-- on the never-sweeping store the same history stays within the bound (1 token) -/
example : admittedTokensK "k" 10000000000 10000000000
    (runTagged AMap.ops (fun c p => p * 1000000000 / c) AMap.empty c17Witness) = 1 := by decide

end TcVerif
