/-
  C05 — Key isolation: traffic on one key never affects another.

  Keys are arbitrary strings compared for exact equality (the model never looks inside a key,
  so "empty, very long, Unicode, differing in one byte" are all just "different keys").
  The theorems quantify over every multi-key history with globally non-decreasing timestamps
  (any length, any number of distinct keys, any limits per request - valid or not), every store
  kind / configuration / cleanup schedule, and every key.
-/
import TcVerif.Lemmas.Cell
namespace TcVerif
open Data

theorem nonDecreasingFrom_weaken {t0 t1 : Int} {l : List Int} (h : t0 ≤ t1) (hl : NonDecreasingFrom t1 l) :
    NonDecreasingFrom t0 l := by
  cases l with
  | nil => trivial
  | cons t rest => exact ⟨by have := hl.1; omega, hl.2⟩

theorem monotoneFrom_filter (p : Req → Bool) (t0 : Int) (rs : List Req) (h : MonotoneFrom t0 rs) :
    MonotoneFrom t0 (rs.filter p) := by
  induction rs generalizing t0 with
  | nil => trivial
  | cons r rs ih =>
    obtain ⟨h0, h1⟩ := h
    by_cases hp : p r = true
    · simp only [List.filter, hp]
      exact ⟨h0, ih r.now h1⟩
    · simp only [List.filter, hp]
      exact nonDecreasingFrom_weaken h0 (ih r.now h1)

theorem runTagged_filter_all {σ : Type} (S : StoreOps σ) (ei : Int → Int → Int) (s : σ) (rs : List Req)
    (k : Key) (h : ∀ r ∈ rs, r.key = k) :
    (runTagged S ei s rs).filter (fun p => p.1.key = k) = runTagged S ei s rs := by
  induction rs generalizing s with
  | nil => rfl
  | cons r rs ih =>
    have hk : r.key = k := h r (List.mem_cons_self ..)
    simp only [runTagged, List.filter, hk, decide_true]
    congr 1
    exact ih _ (fun r' hr' => h r' (List.mem_cons_of_mem _ hr'))

/-- **Key isolation on the abstract map**: the responses for key `k` are those of the single
    cell of `k` fed with the requests whose key is exactly `k`. -/
theorem C05_projection_to_cell (ei : Int → Int → Int) (k : Key) (rs : List Req) (t0 : Int)
    (st : AnyStore) (hst : st.data = []) (hm : MonotoneFrom t0 rs) :
    (runTagged AnyStore.ops ei st rs).filter (fun p => p.1.key = k)
      = runTagged Cell.ops ei none (rs.filter (fun r => r.key = k)) := by
  rw [runTagged_sim anyStore_sim_amap ei rs t0 st AMap.empty (by unfold SimStore Sim; rw [hst]; exact ⟨trivial, fun _ => rfl⟩) hm]
  exact runTagged_project ei k rs t0 AMap.empty none rfl hm

/-- **C05.** For every multi-key history with non-decreasing timestamps, every store (any kind,
    configuration, cleanup schedule) and every key `k`: the responses for `k` in the interleaved
    run equal the responses of `k`'s own requests run alone - on the same or on any other store. -/
theorem C05_key_isolation (ei : Int → Int → Int) (k : Key) (rs : List Req) (t0 : Int)
    (st st' : AnyStore) (hst : st.data = []) (hst' : st'.data = []) (hm : MonotoneFrom t0 rs) :
    (runTagged AnyStore.ops ei st rs).filter (fun p => p.1.key = k)
      = runTagged AnyStore.ops ei st' (rs.filter (fun r => r.key = k)) := by
  rw [C05_projection_to_cell ei k rs t0 st hst hm]
  have hm' := monotoneFrom_filter (fun r => r.key = k) t0 rs hm
  have hall : ∀ r ∈ rs.filter (fun r => r.key = k), r.key = k := by
    intro r hr
    have := (List.mem_filter.mp hr).2
    simpa using this
  rw [← runTagged_filter_all AnyStore.ops ei st' _ k hall]
  rw [C05_projection_to_cell ei k _ t0 st' hst' hm']
  congr 1
  rw [List.filter_filter]
  simp

/-- the other keys' traffic may use any limits at all, valid or not: nothing is assumed about them -/
example : ∃ rs : List Req, MonotoneFrom 0 rs ∧ rs.length = 4 ∧
    (runTagged AnyStore.ops (fun c p => p * 1000000000 / c) (.prob ⟨[], 0, 1⟩) rs).filter (fun p => p.1.key = "k")
      = runTagged AnyStore.ops (fun c p => p * 1000000000 / c) (.periodic ⟨[], 0, 0, 0⟩) (rs.filter (fun r => r.key = "k")) :=
  ⟨[⟨"k", 2, 1, 1, 1, 10⟩, ⟨"other", -5, 0, 0, 7, 10⟩, ⟨"kk", 1, 1, 1, 1, 11⟩, ⟨"k", 2, 1, 1, 2, 12⟩],
   by decide, rfl, by decide⟩

end TcVerif
