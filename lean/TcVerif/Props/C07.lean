/-
  C07 — State lives as long as it matters and is then actually reclaimed.

  Lifetime clause: on D, every write issued for an admitted request asks the store to keep the
  entry for `ttl` with  E ≤ ttl ≤ 2·B·E  (any reachable state, any quantity ≥ 1), and once that
  lifetime has passed the key answers exactly as a never-seen key — so forgetting is unobservable.
  Reclamation clause, per store model: a sweep leaves only unexpired entries; each store's
  guaranteed cleanup point really sweeps (periodic: a write at `now ≥ next_cleanup`; adaptive: a
  write at `now ≥ next_cleanup` or with the operation budget reached; probabilistic: the write
  whose operation number is a multiple of N ≥ 1, while `ops·2654435761 < 2^64`); after such a
  write every held entry is unexpired and keys are pairwise distinct, so the table holds at
  most one entry per key that is still active.
-/
import TcVerif.Props.C03
import TcVerif.Lemmas.TotalStore
namespace TcVerif
open Data

/-! ### lifetime -/

/-- **lifetime bounds**: every write of an admitted request in D carries `E ≤ ttl ≤ 2·B·E` -/
theorem C07_ttl_bounds {E B : Int} (c : Cell) (b : Option Bucket) (t : Int) (r : Req)
    (h : StepD E B t r) (hrel : Rel E B c b t) :
    ∀ op ∈ (rateLimitE Cell.ops c E r).2.2, ∀ ttl, op.ttl? = some ttl → E ≤ ttl ∧ ttl ≤ 2 * (B * E) := by
  intro op hop ttl httl
  have f := cell_step_facts c b t r h hrel
  have hr := C03_reset_eq_lifetime c b t r h hrel op hop ttl httl
  have hE := h.dom.hE; have hEle := h.dom.E_le
  -- a write happens only when admitted with positive quantity
  have hw : r.qty * E ≤ Bucket.refill (B * E) b r.now ∧ 0 < r.qty := by
    rw [f.trace] at hop
    simp only [List.mem_append, List.mem_singleton] at hop
    rcases hop with hop | hop
    · subst hop; simp [StoreOp.ttl?] at httl
    · split at hop
      · assumption
      · cases hop
  obtain ⟨l0, l1⟩ := lvlAfter_range b t r c h hrel
  have hlv : lvlAfter B E b r.now r.qty = Bucket.refill (B * E) b r.now - r.qty * E := by
    unfold lvlAfter; simp [hw.1]
  have hqE : E ≤ r.qty * E := by
    have : 1 * E ≤ r.qty * E := Int.mul_le_mul_of_nonneg_right (by omega) (by omega)
    omega
  have hrf : Bucket.refill (B * E) b r.now ≤ B * E := by
    unfold Bucket.refill; cases b <;> simp <;> omega
  rw [hr, f.reset, hlv]
  have hp1 : E ≤ max (B * E - E) E := Int.le_max_right _ _
  have hp2 : max (B * E - E) E ≤ B * E := by omega
  omega

/-- a request that is denied or asks for quantity 0 writes nothing at all (no lifetime to bound) -/
theorem C07_no_write_unless_admitted {E B : Int} (c : Cell) (b : Option Bucket) (t : Int) (r : Req)
    (h : StepD E B t r) (hrel : Rel E B c b t)
    (hne : (rateLimitE Cell.ops c E r).2.1.allowed = false ∨ r.qty = 0) :
    ∀ op ∈ (rateLimitE Cell.ops c E r).2.2, op.ttl? = none := by
  have f := cell_step_facts c b t r h hrel
  intro op hop
  rw [f.trace] at hop
  simp only [List.mem_append, List.mem_singleton] at hop
  rcases hop with hop | hop
  · subst hop; rfl
  · split at hop
    · rename_i hw
      exfalso
      rcases hne with hne | hne
      · rw [f.allowed] at hne; simp at hne; omega
      · omega
    · cases hop

/-- **forgetting is unobservable**: once the lifetime asked of the store has passed, the key
    answers every request exactly as a key that was never seen -/
theorem C07_forgetting_unobservable {E B : Int} (c : Cell) (b : Option Bucket) (t : Int) (r : Req)
    (h : StepD E B t r) (hrel : Rel E B c b t) (x : Req) (hx : x.valid)
    (ht : r.now + (rateLimitE Cell.ops c E r).2.1.resetNs ≤ x.now) :
    (rateLimitE Cell.ops (rateLimitE Cell.ops c E r).1 E x).2.1 = (rateLimitE Cell.ops none E x).2.1 :=
  C03_reset_then_fresh c b t r h hrel x hx ht

/-! ### reclamation -/

theorem mem_sweep {d : Data} {now : Int} {e : Entry} (h : e ∈ sweep d now) : e.exp > now ∧ e ∈ d := by
  induction d with
  | nil => simp [sweep] at h
  | cons x rest ih =>
    by_cases hx : x.exp > now
    · simp only [sweep, hx, if_true, List.mem_cons] at h
      rcases h with h | h
      · subst h; exact ⟨hx, List.mem_cons_self ..⟩
      · exact ⟨(ih h).1, List.mem_cons_of_mem _ (ih h).2⟩
    · simp only [sweep, hx, if_false] at h
      exact ⟨(ih h).1, List.mem_cons_of_mem _ (ih h).2⟩

theorem mem_erase {d : Data} {k : Key} {e : Entry} (h : e ∈ erase d k) : e ∈ d := by
  induction d with
  | nil => simp [erase] at h
  | cons x rest ih =>
    by_cases hx : x.key = k
    · simp only [erase, hx, if_true] at h; exact List.mem_cons_of_mem _ (ih h)
    · simp only [erase, hx, if_false, List.mem_cons] at h
      rcases h with h | h
      · subst h; exact List.mem_cons_self ..
      · exact List.mem_cons_of_mem _ (ih h)

/-- **sweep postcondition**: after a sweep at `now` every held entry has `expiry > now` -/
theorem C07_sweep_postcondition (d : Data) (now : Int) : ∀ e ∈ sweep d now, e.exp > now :=
  fun _ h => (mem_sweep h).1

/-- every held entry is unexpired, except possibly the one just written -/
def AllLiveExcept (d : Data) (now : Int) (k : Key) : Prop := ∀ e ∈ d, e.key = k ∨ e.exp > now

theorem allLive_after_write (d : Data) (now : Int) (k : Key) (r : Data × Bool × Bool)
    (hr : r = (sweep d now).cas k o n ttl now ∨ r = (sweep d now).setnx k v ttl now) :
    AllLiveExcept r.1 now k := by
  intro e he
  have hsw : ∀ e ∈ sweep d now, e.exp > now := C07_sweep_postcondition d now
  rcases hr with hr | hr
  · subst hr
    unfold Data.cas at he
    split at he
    · split at he
      · exact Or.inr (hsw e he)
      · split at he
        · simp only [Data.insert, List.mem_cons] at he
          rcases he with he | he
          · subst he; exact Or.inl rfl
          · exact Or.inr (hsw e (mem_erase he))
        · exact Or.inr (hsw e he)
    · exact Or.inr (hsw e he)
  · subst hr
    unfold Data.setnx at he
    split at he
    · split at he
      · exact Or.inr (hsw e he)
      · simp only [Data.insert, List.mem_cons] at he
        rcases he with he | he
        · subst he; exact Or.inl rfl
        · exact Or.inr (hsw e (mem_erase he))
    · simp only [Data.insert, List.mem_cons] at he
      rcases he with he | he
      · subst he; exact Or.inl rfl
      · exact Or.inr (hsw e (mem_erase he))

/-- **PeriodicStore**: a write at `now ≥ next_cleanup` sweeps -/
theorem C07_guaranteed_trigger_periodic (s : Periodic) (now : Int) (h : now ≥ s.nextCleanup) :
    (s.maybeClean now).data = s.data.sweep now ∧ (s.maybeClean now).nextCleanup = now + s.interval := by
  simp [Periodic.maybeClean, h]

/-- **AdaptiveStore**: a write at `now ≥ next_cleanup`, or one that reaches the operation budget, sweeps
    (whatever the expired-ratio / table-pressure triggers say) -/
theorem C07_guaranteed_trigger_adaptive (s : Adaptive) (now : Int)
    (h : now ≥ s.nextCleanup ∨ s.opsSince + 1 ≥ s.maxOps) :
    (s.maybeClean now).data = s.data.sweep now ∧ (s.maybeClean now).opsSince = 0 := by
  unfold Adaptive.maybeClean
  have hc : Adaptive.shouldClean { s with opsSince := s.opsSince + 1, pressure := s.pressure.tail } now
      (s.pressure.headD false) = true := by
    unfold Adaptive.shouldClean
    rcases h with h | h
    · simp [h]
    · by_cases h1 : now ≥ s.nextCleanup
      · simp [h1]
      · simp [h1, h]
  simp only [hc, if_true, Adaptive.cleanup]
  exact ⟨trivial, trivial⟩

/-- **probabilistic store: every N-th write is a cleanup point** - for EVERY operation count (the
    product `count * 2654435761` is formed in 128 bits since the repair, so it never wraps): the write
    whose operation number is a multiple of `N` sweeps. -/
theorem C07_guaranteed_trigger_probabilistic (s : Prob) (now : Int) (hN : 1 ≤ s.modulus)
    (hdiv : (s.opsCount + 1) % s.modulus = 0) :
    (s.maybeCleanup now).data = s.data.sweep now := by
  unfold Prob.maybeCleanup
  have hf : Prob.fires (s.opsCount + 1) s.modulus = true := by
    unfold Prob.fires
    have h0 : s.modulus ≠ 0 := by omega
    simp only [h0, if_false, decide_eq_true_eq]
    have : s.modulus ∣ (s.opsCount + 1) := Nat.dvd_of_mod_eq_zero hdiv
    exact Nat.mod_eq_zero_of_dvd (Nat.dvd_trans this (Nat.dvd_mul_right _ _))
  simp only [hf, if_true]

/-- ... so among ANY `N` consecutive writes (operation numbers `c+1 … c+N`) at least one sweeps,
    whatever the count `c` the store has reached -/
theorem C07_probabilistic_every_window (c N : Nat) (hN : 1 ≤ N) :
    ∃ i, i < N ∧ Prob.fires (c + 1 + i) N = true := by
  have hpos : 0 < N := hN
  have hr : (c + 1) % N < N := Nat.mod_lt _ hpos
  refine ⟨(N - (c + 1) % N) % N, Nat.mod_lt _ hpos, ?_⟩
  unfold Prob.fires
  have h0 : N ≠ 0 := by omega
  simp only [h0, if_false, decide_eq_true_eq]
  have hdvd : N ∣ c + 1 + (N - (c + 1) % N) % N := by
    apply Nat.dvd_of_mod_eq_zero
    rw [Nat.add_mod, Nat.mod_mod]
    by_cases hz : (c + 1) % N = 0
    · simp [hz]
    · have : (N - (c + 1) % N) % N = N - (c + 1) % N := Nat.mod_eq_of_lt (by omega)
      rw [this]
      have : (c + 1) % N + (N - (c + 1) % N) = N := by omega
      rw [this, Nat.mod_self]
  exact Nat.mod_eq_zero_of_dvd (Nat.dvd_trans hdvd (Nat.dvd_mul_right _ _))

/-- and it is EXACTLY every N-th write when `N` has no factor in common with the multiplier (a prime
    above 2^31, so every `N` below it; the default 10 000 is checked below): no other write sweeps -/
theorem C07_probabilistic_trigger_exact (ops N : Nat) (hN : 1 ≤ N) (hc : Nat.Coprime N PROB_MULT) :
    Prob.fires ops N = true ↔ ops % N = 0 := by
  unfold Prob.fires
  have h0 : N ≠ 0 := by omega
  simp only [h0, if_false, decide_eq_true_eq]
  constructor
  · intro h
    exact Nat.mod_eq_zero_of_dvd (hc.dvd_of_dvd_mul_right (Nat.dvd_of_mod_eq_zero h))
  · intro h
    exact Nat.mod_eq_zero_of_dvd (Nat.dvd_trans (Nat.dvd_of_mod_eq_zero h) (Nat.dvd_mul_right _ _))

example : Nat.Coprime Gen.PROB_DEFAULT_MODULO PROB_MULT := by decide      -- the library default, 1000
example : Nat.Coprime 10000 PROB_MULT := by decide                       -- the server's default

/-- what was wrong before the repair (finding F8, `fixed` in KNOWN_FINDINGS.jsonl): with the 64-bit
    WRAPPING product the default store (`N = 1000`) in the state it has after 6 949 403 000 writes
    goes 1000 consecutive writes - in fact 1055 - without a cleanup (kernel-evaluated); the server's
    default `N = 10 000` first does so after 34 747 006 224 writes (19 055 writes without a cleanup) -/
theorem C07_wrapped_trigger_gap :
    (∀ i, i < 1055 → Prob.firesWrapped (6949403000 + 1 + i) 1000 = false) ∧
    (∀ i, i < 19055 → Prob.firesWrapped (34747006224 + 1 + i) 10000 = false) := by
  have h1 : (List.range 1055).all (fun i => !Prob.firesWrapped (6949403000 + 1 + i) 1000) = true := by
    decide +kernel
  have h2 : (List.range 19055).all (fun i => !Prob.firesWrapped (34747006224 + 1 + i) 10000) = true := by
    decide +kernel
  constructor
  · intro i hi
    have := List.all_eq_true.mp h1 i (List.mem_range.mpr hi)
    simpa using this
  · intro i hi
    have := List.all_eq_true.mp h2 i (List.mem_range.mpr hi)
    simpa using this

/-- the same writes under the repaired trigger: the 1000-th after 6 949 403 000 sweeps -/
example : Prob.fires (6949403000 + 1 + 999) 1000 = true := by decide +kernel

/-- with modulus 1 EVERY write sweeps, wrapped or not -/
theorem C07_guaranteed_trigger_probabilistic_every (s : Prob) (now : Int) (hN : s.modulus = 1) :
    (s.maybeCleanup now).data = s.data.sweep now := by
  unfold Prob.maybeCleanup
  have hf : Prob.fires (s.opsCount + 1) s.modulus = true := by
    unfold Prob.fires; simp [hN, Nat.mod_one]
  simp only [hf, if_true]

/-- **after a guaranteed cleanup point** every held entry is unexpired (the entry just written is
    unexpired too whenever its lifetime is positive - on D it is ≥ E ≥ 1 ns by `C07_ttl_bounds`),
    and keys stay pairwise distinct: at most one entry per still-active key is held. -/
theorem C07_reclaimed_periodic (s : Periodic) (hd : NodupKeys s.data) (k : Key) (v ttl now : Int) (h : now ≥ s.nextCleanup) :
    AllLiveExcept (Periodic.ops.setnx s k v ttl now).1.data now k ∧ NodupKeys (Periodic.ops.setnx s k v ttl now).1.data := by
  have hs := (C07_guaranteed_trigger_periodic s now h).1
  constructor
  · simp only [Periodic.ops, hs]
    exact allLive_after_write (o := 0) (n := 0) s.data now k _ (Or.inr rfl)
  · exact anyStore_setnx_nodup (.periodic s) hd k v ttl now

theorem C07_reclaimed_adaptive (s : Adaptive) (hd : NodupKeys s.data) (k : Key) (v ttl now : Int)
    (h : now ≥ s.nextCleanup ∨ s.opsSince + 1 ≥ s.maxOps) :
    AllLiveExcept (Adaptive.ops.setnx s k v ttl now).1.data now k ∧ NodupKeys (Adaptive.ops.setnx s k v ttl now).1.data := by
  have hs := (C07_guaranteed_trigger_adaptive s now h).1
  constructor
  · simp only [Adaptive.ops, hs]
    exact allLive_after_write (o := 0) (n := 0) s.data now k _ (Or.inr rfl)
  · exact anyStore_setnx_nodup (.adaptive s) hd k v ttl now

theorem C07_reclaimed_probabilistic (s : Prob) (hd : NodupKeys s.data) (k : Key) (v ttl now : Int)
    (hN : 1 ≤ s.modulus) (hdiv : (s.opsCount + 1) % s.modulus = 0)
    :
    AllLiveExcept (Prob.ops.setnx s k v ttl now).1.data now k ∧ NodupKeys (Prob.ops.setnx s k v ttl now).1.data := by
  have hs := C07_guaranteed_trigger_probabilistic s now hN hdiv
  constructor
  · simp only [Prob.ops, hs]
    exact allLive_after_write (o := 0) (n := 0) s.data now k _ (Or.inr rfl)
  · exact anyStore_setnx_nodup (.prob s) hd k v ttl now

theorem find_none_key_ne {d : Data} {k : Key} (h : Data.find d k = none) : ∀ e ∈ d, e.key ≠ k := by
  induction d with
  | nil => intro e he; cases he
  | cons x rest ih =>
    rw [find_cons] at h
    by_cases hx : x.key = k
    · simp [hx] at h
    · simp only [hx, if_false] at h
      intro e he
      cases he with
      | head => exact hx
      | tail _ he' => exact ih h e he'

/-- **the counting step**: the table holds at most one entry per key (keys are pairwise distinct), so
    if every held entry belongs to a key of the active set `A` - after a guaranteed cleanup point
    that is every key whose state is unexpired plus the key just written (`AllLiveExcept`) - the
    number of stored entries is at most `|A|`, however many keys were ever seen. -/
theorem C07_entries_bounded_by_active (d : Data) (A : List Key) (hd : NodupKeys d)
    (hA : ∀ e ∈ d, e.key ∈ A) : d.length ≤ A.length := by
  induction d generalizing A with
  | nil => exact Nat.zero_le _
  | cons x rest ih =>
    obtain ⟨h1, h2⟩ := hd
    have hx : x.key ∈ A := hA x (List.mem_cons_self ..)
    have hne := find_none_key_ne h1
    have hrest : ∀ e ∈ rest, e.key ∈ A.erase x.key := by
      intro e he
      exact (List.mem_erase_of_ne (hne e he)).mpr (hA e (List.mem_cons_of_mem _ he))
    have := ih (A.erase x.key) h2 hrest
    rw [List.length_erase_of_mem hx] at this
    have hpos : 0 < A.length := List.length_pos_of_mem hx
    simp only [List.length_cons]
    omega

/-! ### over an unbounded history -/

/-- the store after a sequence of operations -/
def finalStore (st : AnyStore) : List SOp → AnyStore
  | [] => st
  | op :: rest => finalStore (applyOp AnyStore.ops st op).1 rest

theorem finalStore_nodup (st : AnyStore) (hd : NodupKeys st.data) (ops : List SOp) :
    NodupKeys (finalStore st ops).data := by
  induction ops generalizing st with
  | nil => exact hd
  | cons op rest ih => exact ih _ (applyOp_nodup st hd op)

/-- is the write that comes next, at time `now`, a guaranteed cleanup point of this store?
    (interval elapsed / operation budget reached / N-th write; the abstract map has none) -/
def AnyStore.cleanupDue : AnyStore → Int → Prop
  | .amap _, _ => False
  | .periodic s, now => now ≥ s.nextCleanup
  | .adaptive s, now => now ≥ s.nextCleanup ∨ s.opsSince + 1 ≥ s.maxOps
  | .prob s, _ => 1 ≤ s.modulus ∧ (s.opsCount + 1) % s.modulus = 0

/-- what a write at a cleanup point leaves behind: the entry written, and entries of the OLD table
    whose lifetime has not passed -/
theorem survivors_after_write (d : Data) (now : Int) (k : Key) (r : Data × Bool × Bool)
    (hr : r = (sweep d now).cas k o n ttl now ∨ r = (sweep d now).setnx k v ttl now) :
    ∀ e ∈ r.1, e.key = k ∨ (e.exp > now ∧ e ∈ d) := by
  intro e he
  have hsw : ∀ e ∈ sweep d now, e.exp > now ∧ e ∈ d := fun _ h => mem_sweep h
  rcases hr with hr | hr
  · subst hr
    unfold Data.cas at he
    split at he
    · split at he
      · exact Or.inr (hsw e he)
      · split at he
        · simp only [Data.insert, List.mem_cons] at he
          rcases he with he | he
          · subst he; exact Or.inl rfl
          · exact Or.inr (hsw e (mem_erase he))
        · exact Or.inr (hsw e he)
    · exact Or.inr (hsw e he)
  · subst hr
    unfold Data.setnx at he
    split at he
    · split at he
      · exact Or.inr (hsw e he)
      · simp only [Data.insert, List.mem_cons] at he
        rcases he with he | he
        · subst he; exact Or.inl rfl
        · exact Or.inr (hsw e (mem_erase he))
    · simp only [Data.insert, List.mem_cons] at he
      rcases he with he | he
      · subst he; exact Or.inl rfl
      · exact Or.inr (hsw e (mem_erase he))

/-- one write (`set_if_not_exists` or `compare_and_swap`) at a guaranteed cleanup point of any of the
    three stores -/
theorem cleanup_point_survivors (st : AnyStore) (now : Int) (hdue : st.cleanupDue now) (k : Key)
    (a b ttl : Int) :
    (∀ e ∈ (AnyStore.ops.setnx st k a ttl now).1.data, e.key = k ∨ (e.exp > now ∧ e ∈ st.data)) ∧
    (∀ e ∈ (AnyStore.ops.cas st k a b ttl now).1.data, e.key = k ∨ (e.exp > now ∧ e ∈ st.data)) := by
  cases st with
  | amap s => exact absurd hdue (by simp [AnyStore.cleanupDue])
  | periodic s =>
    have hs := (C07_guaranteed_trigger_periodic s now hdue).1
    constructor
    · simp only [AnyStore.ops, AnyStore.data, Periodic.ops, hs]
      exact survivors_after_write (o := 0) (n := 0) s.data now k _ (Or.inr rfl)
    · simp only [AnyStore.ops, AnyStore.data, Periodic.ops, hs]
      exact survivors_after_write (v := 0) s.data now k _ (Or.inl rfl)
  | adaptive s =>
    have hs := (C07_guaranteed_trigger_adaptive s now hdue).1
    constructor
    · simp only [AnyStore.ops, AnyStore.data, Adaptive.ops, hs]
      exact survivors_after_write (o := 0) (n := 0) s.data now k _ (Or.inr rfl)
    · simp only [AnyStore.ops, AnyStore.data, Adaptive.ops, hs]
      exact survivors_after_write (v := 0) s.data now k _ (Or.inl rfl)
  | prob s =>
    have hs := C07_guaranteed_trigger_probabilistic s now hdue.1 hdue.2
    constructor
    · simp only [AnyStore.ops, AnyStore.data, Prob.ops, hs]
      exact survivors_after_write (o := 0) (n := 0) s.data now k _ (Or.inr rfl)
    · simp only [AnyStore.ops, AnyStore.data, Prob.ops, hs]
      exact survivors_after_write (v := 0) s.data now k _ (Or.inl rfl)

/-- **bounded over an unbounded history**: start from any store without duplicate keys (e.g. an empty
    one), run ANY sequence of operations - any number of keys ever seen, any times - and let the next
    write, at time `now` on key `k`, fall on a guaranteed cleanup point.  If `A` lists the keys that
    still matter (the key being written and every key whose stored state has not yet expired at `now`)
    the table holds at most `|A|` entries afterwards: physical size follows the ACTIVE set, not the
    history.  Holds for `set_if_not_exists` and for `compare_and_swap` writes on all three stores. -/
theorem C07_bounded_over_history (st0 : AnyStore) (hd0 : NodupKeys st0.data) (ops : List SOp)
    (now : Int) (k : Key) (a b ttl : Int) (A : List Key)
    (hdue : (finalStore st0 ops).cleanupDue now)
    (hk : k ∈ A)
    (hA : ∀ e ∈ (finalStore st0 ops).data, e.exp > now → e.key ∈ A) :
    (AnyStore.ops.setnx (finalStore st0 ops) k a ttl now).1.data.length ≤ A.length ∧
    (AnyStore.ops.cas (finalStore st0 ops) k a b ttl now).1.data.length ≤ A.length := by
  have hd := finalStore_nodup st0 hd0 ops
  have hsv := cleanup_point_survivors (finalStore st0 ops) now hdue k a b ttl
  constructor
  · apply C07_entries_bounded_by_active _ A (anyStore_setnx_nodup _ hd k a ttl now)
    intro e he
    rcases hsv.1 e he with h | ⟨h1, h2⟩
    · exact h ▸ hk
    · exact hA e h2 h1
  · apply C07_entries_bounded_by_active _ A (anyStore_cas_nodup _ hd k a b ttl now)
    intro e he
    rcases hsv.2 e he with h | ⟨h1, h2⟩
    · exact h ▸ hk
    · exact hA e h2 h1

/-- non-vacuity: 5 writes of fresh keys with 10 ns lifetimes on a periodic store (interval 50), then a
    write at the cleanup instant: one key active, one entry held -/
def exHist : AnyStore := finalStore (.periodic ⟨[], 50, 50, 0⟩)
  [.setnx "a" 1 10 0, .setnx "b" 1 10 1, .setnx "c" 1 10 2, .setnx "d" 1 10 3, .setnx "e" 1 10 4]

example : exHist.data.length = 5 ∧ (60 : Int) ≥ 50 ∧
    (AnyStore.ops.setnx exHist "f" 1 10 60).1.data.length = 1 := by decide

/-! non-vacuity: a periodic store holding two expired and one live entry, written at its cleanup instant -/
example : (Periodic.ops.setnx ⟨[⟨"a", 1, 5⟩, ⟨"b", 2, 100⟩, ⟨"c", 3, 9⟩], 10, 60, 0⟩ "n" 7 30 10).1.data
    = [⟨"n", 7, 40⟩, ⟨"b", 2, 100⟩] := by decide

end TcVerif
