/-
  C04 — Denied, zero-quantity and invalid requests consume nothing.

  Stated on the full store models (`AnyStore`: any of the three stores in any configuration and
  scheduling state, with unique keys - what a hash map guarantees) for ARBITRARY requests:
  any keys, any limits per request (the same key may be used with different limits), valid or
  not, and - stronger than the property asks - any timestamp order.
  "Consumes nothing" is proved in the strongest form: the whole store state (entries AND cleanup
  scheduling state) is literally unchanged, hence every later response is unchanged.
-/
import TcVerif.Lemmas.Reach
import TcVerif.Props.C08
namespace TcVerif
open Data

/-- a response that must not consume budget: an error, a denial, or any answer to quantity 0 -/
def NoEffect (r : Req) (o : Outcome) : Prop := o.isOk = false ∨ o.allowed = false ∨ r.qty = 0

theorem decision_write_iff (E : Int) (r : Req) (tv : Option Int) :
    (decision E r tv).write = true ↔ ((decision E r tv).allowed = true ∧ r.qty > 0) := by
  simp [decision]

theorem decision_outcome_allowed (E : Int) (r : Req) (tv : Option Int) :
    (decision E r tv).outcome.allowed = (decision E r tv).allowed := by
  simp [decision, Outcome.allowed]

theorem rlLoop_nowrite {σ : Type} (S : StoreOps σ) (n : Nat) (s : σ) (E : Int) (r : Req) (tr : List StoreOp)
    (h : (decision E r (S.get s r.key r.now)).write = false) :
    (rlLoop S (n + 1) s E r tr).1 = s ∧
    (rlLoop S (n + 1) s E r tr).2.2 = tr ++ [StoreOp.get r.key r.now (S.get s r.key r.now)] := by
  simp [rlLoop, h]

/-- **C04 (state form).** A request answered with an error, a denial, or carrying quantity 0
    leaves the store exactly as it was, and issues no write. -/
theorem C04_no_effect_state (st : AnyStore) (hd : NodupKeys st.data) (E : Int) (r : Req)
    (h : NoEffect r (rateLimitE AnyStore.ops st E r).2.1) :
    (rateLimitE AnyStore.ops st E r).1 = st ∧
    ∀ op ∈ (rateLimitE AnyStore.ops st E r).2.2, op.ttl? = none := by
  by_cases hv : r.valid
  · obtain ⟨ho, _, _⟩ := rateLimitE_anyStore st hd E r hv
    have hnw : (decision E r (AnyStore.ops.get st r.key r.now)).write = false := by
      cases hw : (decision E r (AnyStore.ops.get st r.key r.now)).write with
      | false => rfl
      | true =>
        exfalso
        obtain ⟨ha, hq⟩ := (decision_write_iff E r _).mp hw
        rw [ho] at h
        rcases h with h | h | h
        · simp [decision, Outcome.isOk] at h
        · rw [decision_outcome_allowed, ha] at h; cases h
        · omega
    obtain ⟨h1, h2, h3, h4⟩ := hv
    have hq : ¬ r.qty < 0 := by omega
    have hl : ¬ (r.burst ≤ 0 ∨ r.count ≤ 0 ∨ r.period ≤ 0) := by omega
    simp only [rateLimitE, hq, hl, if_false, maxRetries_pos]
    obtain ⟨e1, e2⟩ := rlLoop_nowrite AnyStore.ops 9 st E r [] hnw
    refine ⟨e1, ?_⟩
    rw [e2]
    intro op hop
    simp only [List.nil_append, List.mem_singleton] at hop
    subst hop; rfl
  · have : r.qty < 0 ∨ (r.burst ≤ 0 ∨ r.count ≤ 0 ∨ r.period ≤ 0) := by
      unfold Req.valid at hv; omega
    unfold rateLimitE
    by_cases hq : r.qty < 0
    · simp [hq]
    · have hl : r.burst ≤ 0 ∨ r.count ≤ 0 ∨ r.period ≤ 0 := by omega
      simp [hq, hl]

/-- rejected requests (non-positive limits, negative quantity) touch the store not at all:
    no operation is issued, so no state can be created — for ANY store implementation -/
theorem C04_error_no_state {σ : Type} (S : StoreOps σ) (s : σ) (E : Int) (r : Req) (h : ¬ r.valid) :
    (rateLimitE S s E r).1 = s ∧ (rateLimitE S s E r).2.2 = [] ∧ (rateLimitE S s E r).2.1.isOk = false := by
  have : r.qty < 0 ∨ (r.burst ≤ 0 ∨ r.count ≤ 0 ∨ r.period ≤ 0) := by
    unfold Req.valid at h; omega
  unfold rateLimitE
  by_cases hq : r.qty < 0
  · simp [hq, Outcome.isOk]
  · have hl : r.burst ≤ 0 ∨ r.count ≤ 0 ∨ r.period ≤ 0 := by omega
    simp [hq, hl, Outcome.isOk]

theorem runTagged_append_list {σ : Type} (S : StoreOps σ) (ei : Int → Int → Int) (s : σ) (pre post : List Req) :
    runTagged S ei s (pre ++ post) = runTagged S ei s pre ++ runTagged S ei (stateAfter S ei s pre) post := by
  induction pre generalizing s with
  | nil => rfl
  | cons r rs ih => simp only [List.cons_append, runTagged, stateAfter, ih]

theorem stateAfter_nodup (ei : Int → Int → Int) (st : AnyStore) (hd : NodupKeys st.data) (rs : List Req) :
    NodupKeys (stateAfter AnyStore.ops ei st rs).data := by
  induction rs generalizing st with
  | nil => exact hd
  | cons r rs ih => exact ih _ (rateLimitE_nodup st hd _ r)

/-- **C04 (history form).** Deleting a no-effect request from ANY history changes no other response:
    the responses before it are the same, and so are all the responses after it. -/
theorem C04_deleting_changes_nothing (ei : Int → Int → Int) (st : AnyStore) (hd : NodupKeys st.data)
    (pre post : List Req) (x : Req)
    (h : NoEffect x (rateLimitE AnyStore.ops (stateAfter AnyStore.ops ei st pre) (ei x.count x.period) x).2.1) :
    ∃ ox, runTagged AnyStore.ops ei st (pre ++ x :: post)
            = runTagged AnyStore.ops ei st pre ++ (x, ox) :: runTagged AnyStore.ops ei (stateAfter AnyStore.ops ei st pre) post
        ∧ runTagged AnyStore.ops ei st (pre ++ post)
            = runTagged AnyStore.ops ei st pre ++ runTagged AnyStore.ops ei (stateAfter AnyStore.ops ei st pre) post := by
  refine ⟨(rateLimitE AnyStore.ops (stateAfter AnyStore.ops ei st pre) (ei x.count x.period) x).2.1, ?_,
    runTagged_append_list _ _ _ _ _⟩
  rw [runTagged_append_list]
  congr 1
  simp only [runTagged]
  rw [(C04_no_effect_state _ (stateAfter_nodup ei st hd pre) _ x h).1]

/-! #### non-vacuity: a zero-quantity probe under OTHER limits, an over-burst request and an invalid
    one, inserted into a history on a max_burst = 1 key (the case that poisoned the key before the repair) -/

def c04Base : List Req := [⟨"k", 1, 1, 1, 1, 5000000000⟩, ⟨"k", 1, 1, 1, 1, 5500000000⟩, ⟨"k", 1, 1, 1, 1, 6000000000⟩]
def c04Ext : List Req :=
  [⟨"k", 1, 1, 1, 0, 4000000000⟩, ⟨"k", 1, 1, 1, 1, 5000000000⟩, ⟨"k", 7, 1000, 1, 0, 5000000001⟩,
   ⟨"k", 1, 1, 1, 2, 5000000002⟩, ⟨"k", 0, 1, 1, 1, 5000000003⟩, ⟨"k", 1, 1, 1, 1, 5500000000⟩, ⟨"k", 1, 1, 1, 1, 6000000000⟩]

example :
    (runTagged AnyStore.ops (fun c p => p * 1000000000 / c) (.prob ⟨[], 0, 1⟩) c04Ext).filter (fun p => p.1.qty = 1 ∧ p.1.burst = 1)
      = runTagged AnyStore.ops (fun c p => p * 1000000000 / c) (.prob ⟨[], 0, 1⟩) c04Base := by decide

end TcVerif
