/-
  C13 — RESP decoding is safe on any bytes and independent of packet boundaries.
  Property theorems only; helper lemmas are in `TcVerif/Lemmas/Resp*.lean`.

  All statements are about `parse d = decode 128 d`, i.e. the parser entered at depth 0, for
  EVERY byte list `d`.
-/
import TcVerif.Lemmas.RespWF
import TcVerif.Lemmas.RespConn
import TcVerif.Lemmas.RespDepth

namespace TcVerif.Resp

open TcVerif.Gen

/-! ## decoder: bounds, limits -/

/-- `C13_no_panic` is implicit in totality; the consumed length is within the buffer, so
    `buffer.drain(..consumed)` and the element slices `&data[consumed..]` are in bounds. -/
theorem C13_consumed_bounds {d : List UInt8} {v : Value} {n : Nat} (h : parse d = .ok v n) :
    1 ≤ n ∧ n ≤ d.length :=
  (decode_ok RESP_MAX_DEPTH).bound d v n h

/-- index safety of `&line[1..]`: every frame starts with a type byte that is not CR, so the
    line returned by `read_line` has at least one byte -/
theorem C13_index_line {t : UInt8} {r l : List UInt8} {n : Nat} (ht : t ≠ 13)
    (h : readLine (t :: r) = some (l, n)) : 1 ≤ l.length ∧ n ≤ (t :: r).length :=
  ⟨readLine_line_nonempty ht h, (readLine_bound h).2.1⟩

/-- index safety inside the element loop (at any depth): after decoding `c` elements the running
    offset `m` (the model's `d.drop m`, Rust's `&data[consumed..]`) is within the slice -/
theorem C13_index_elems {fuel c : Nat} {d : List UInt8} {vs : List Value} {m : Nat}
    (h : decodeElems fuel c d = .ok vs m) : m ≤ d.length ∧ vs.length = c :=
  let r := decodeElemsWith_bound (decode_ok fuel) c d vs m h
  ⟨r.1, r.2.1⟩

/-- every decoded value is within the limits: bulk strings ≤ 512 MiB and valid UTF-8, arrays
    ≤ 2^20 elements, simple strings / errors valid UTF-8 without CR LF, integers in `i64`,
    nesting ≤ 128 (`WF` unfolds to `sizesOk v ∧ depth v ≤ 128`) -/
theorem C13_limits {d : List UInt8} {v : Value} {n : Nat} (h : parse d = .ok v n) : WF v := by
  have := decode_wf RESP_MAX_DEPTH d v n h
  simp only [WF, wf, this.1, Bool.true_and, decide_eq_true_eq]; exact this.2

/-- what `WF` says about a bulk string -/
theorem C13_limits_bulk {s : List UInt8} (h : WF (.bulk (some s))) :
    s.length ≤ 536870912 ∧ validUtf8 s = true := by
  simp only [WF, wf, sizesOk, Bool.and_eq_true, decide_eq_true_eq] at h
  exact ⟨h.1.2, h.1.1⟩

/-- what `WF` says about an array: size, depth, and every element is again `WF` -/
theorem C13_limits_array {xs : List Value} (h : WF (.array xs)) :
    xs.length ≤ 1048576 ∧ depth (.array xs) ≤ 128 ∧ ∀ x ∈ xs, WF x := by
  simp only [WF, wf, sizesOk, Bool.and_eq_true, decide_eq_true_eq] at h
  refine ⟨h.1.1, h.2, ?_⟩
  intro x hx
  have := sizesOkList_mem h.1.2 x hx
  have hd := depthList_mem xs x hx
  simp only [WF, wf, this, Bool.true_and, decide_eq_true_eq]
  have := h.2
  simp only [depth] at this
  simp only [RESP_MAX_DEPTH] at *; omega

/-- a `$` header outside `-1 ..= 512 MiB` is an error (at every depth) -/
theorem C13_limits_bulk_header {fuel : Nat} {r l : List UInt8} {n : Nat} {k : Int}
    (hl : readLine (36 :: r) = some (l, n)) (hk : parseHdrInt (l.drop 1) = some k)
    (hbad : k < -1 ∨ k > 536870912) : decode fuel (36 :: r) = .error := by
  rw [decode_scalar fuel 36 r (by decide), scalar36, decodeBulk,
    header_reject hl hk (by simpa [RESP_MAX_BULK] using hbad)]

/-- a `*` header outside `-1 ..= 2^20` is an error (at every depth) -/
theorem C13_limits_array_header {fuel : Nat} {r l : List UInt8} {n : Nat} {k : Int}
    (hl : readLine (42 :: r) = some (l, n)) (hk : parseHdrInt (l.drop 1) = some k)
    (hbad : k < -1 ∨ k > 1048576) : decode fuel (42 :: r) = .error := by
  cases fuel with
  | zero => exact decode_array_zero 42 r rfl
  | succ f =>
    rw [decode_array_succ f 42 r rfl, header_reject hl hk (by simpa [RESP_MAX_ARRAY] using hbad)]

/-- the 129th nested `*` is rejected before its header is even read -/
theorem C13_limits_depth (x : List UInt8) :
    parse ((List.replicate 128 b!"*1\r\n").flatten ++ 42 :: x) = .error :=
  nested_error 128 x

/-- The literal transcription of the Rust parser with its `self.depth` field (`decodeD`, entered
    with `depth = 0`) returns exactly `parse d`, and the counter is 0 again after `ok` and after
    "need more data" — so re-using one `RespParser` for every iteration of the connection loop is
    the same as calling `parse` afresh.  (After an error the counter may stay raised; the
    connection is closed then.) -/
theorem C13_depth_restored (d : List UInt8) :
    (decodeD RESP_MAX_DEPTH 0 d).1 = parse d ∧
    ((decodeD RESP_MAX_DEPTH 0 d).1 ≠ .error → (decodeD RESP_MAX_DEPTH 0 d).2 = 0) :=
  decodeD_spec RESP_MAX_DEPTH 0 d (Nat.le_refl _)

/-- the same at any entry depth: result = `decode (128 - depth)`, counter restored -/
theorem C13_depth_restored_at (gas depth : Nat) (d : List UInt8) (hg : RESP_MAX_DEPTH ≤ depth + gas) :
    (decodeD gas depth d).1 = decode (RESP_MAX_DEPTH - depth) d ∧
    ((decodeD gas depth d).1 ≠ .error → (decodeD gas depth d).2 = depth) :=
  decodeD_spec gas depth d hg

/-! ## prefix stability -/

theorem C13_prefix_stable_ok {d : List UInt8} {v : Value} {n : Nat} (h : parse d = .ok v n)
    (x : List UInt8) : parse (d ++ x) = .ok v n := by
  unfold parse at h ⊢
  rw [(decode_ok RESP_MAX_DEPTH).append d x (by rw [h]; simp), h]

theorem C13_prefix_stable_err {d : List UInt8} (h : parse d = .error) (x : List UInt8) :
    parse (d ++ x) = .error := by
  unfold parse at h ⊢
  rw [(decode_ok RESP_MAX_DEPTH).append d x (by rw [h]; simp), h]

/-- the decoder only looks at the bytes of the frame it returns -/
theorem C13_frame_local {d : List UInt8} {v : Value} {n : Nat} (h : parse d = .ok v n) :
    parse (d.take n) = .ok v n :=
  (decode_ok RESP_MAX_DEPTH).take d v n n h (Nat.le_refl n)

/-- every strict prefix of a complete frame is "need more data" -/
theorem C13_strict_prefix_incomplete {f : List UInt8} {v : Value}
    (h : parse f = .ok v f.length) (p : List UInt8) (hp : p <+: f) (hne : p ≠ f) :
    parse p = .incomplete := by
  obtain ⟨s, rfl⟩ := hp
  have hs : s ≠ [] := by intro e; subst e; simp at hne
  have hlen : p.length < (p ++ s).length := by
    cases s with
    | nil => exact absurd rfl hs
    | cons a s => simp
  cases hq : parse p with
  | incomplete => rfl
  | error => rw [C13_prefix_stable_err hq s] at h; cases h
  | ok v' n' =>
    have hb := C13_consumed_bounds hq
    rw [C13_prefix_stable_ok hq s] at h
    cases h; omega

/-! ## connection level

Stated for a stateful limiter `actor : σ → ThrottleReq → ActorAnswer × σ` started in state `st`
(`connRunS`); `connRun` with a stateless limiter is the instance `σ = Unit`. -/

/-- however a stream is cut into reads, as long as neither run hits the 64 KiB cap the bytes
    written, the way the connection ends (incl. the undecoded tail left in the buffer), the
    sequence of decoded commands and the final limiter state are the same.
    (The 1024-byte bound on reads is not needed.) -/
theorem C13_chunking_invariant {σ : Type} (actor : σ → ThrottleReq → ActorAnswer × σ)
    (upperOf : List UInt8 → List UInt8) (st : σ) (s : List UInt8) (cs₁ cs₂ : List (List UInt8))
    (h₁ : IsChunking cs₁ s) (h₂ : IsChunking cs₂ s)
    (no₁ : (connRunS actor upperOf st cs₁).end ≠ .overflow)
    (no₂ : (connRunS actor upperOf st cs₂).end ≠ .overflow) :
    (connRunS actor upperOf st cs₁).out = (connRunS actor upperOf st cs₂).out ∧
    (connRunS actor upperOf st cs₁).end = (connRunS actor upperOf st cs₂).end ∧
    (connRunS actor upperOf st cs₁).cmds = (connRunS actor upperOf st cs₂).cmds ∧
    (connRunS actor upperOf st cs₁).st = (connRunS actor upperOf st cs₂).st := by
  have e1 := connLoop_eq_stream actor upperOf cs₁ st [] (fun c hc => (h₁.2 c hc).1) parse_nil no₁
  have e2 := connLoop_eq_stream actor upperOf cs₂ st [] (fun c hc => (h₂.2 c hc).1) parse_nil no₂
  simp only [List.nil_append, h₁.1, h₂.1] at e1 e2
  unfold connRunS
  simp only [e1.1, e1.2.1, e1.2.2.1, e1.2.2.2, e2.1, e2.2.1, e2.2.2.1, e2.2.2.2, and_self]

/-- the stateless form: `connRun` writes the same bytes and ends the same way -/
theorem C13_chunking_invariant_stateless (actor : ThrottleReq → ActorAnswer)
    (upperOf : List UInt8 → List UInt8) (s : List UInt8) (cs₁ cs₂ : List (List UInt8))
    (h₁ : IsChunking cs₁ s) (h₂ : IsChunking cs₂ s)
    (no₁ : (connRun actor upperOf cs₁).2 ≠ .overflow)
    (no₂ : (connRun actor upperOf cs₂).2 ≠ .overflow) :
    connRun actor upperOf cs₁ = connRun actor upperOf cs₂ := by
  have := C13_chunking_invariant (liftActor actor) upperOf () s cs₁ cs₂ h₁ h₂ no₁ no₂
  unfold connRun connRunFull
  simp only [this.1, this.2.1]

/-- a run that does hit the cap has written a prefix of what the uncapped stream semantics
    writes, and has decoded a prefix of its commands -/
theorem C13_chunking_overflow_prefix {σ : Type} (actor : σ → ThrottleReq → ActorAnswer × σ)
    (upperOf : List UInt8 → List UInt8) (st : σ) (cs : List (List UInt8))
    (hne : ∀ c ∈ cs, c ≠ []) :
    (connRunS actor upperOf st cs).out <+: (streamRun actor upperOf st cs.flatten).out ∧
    (connRunS actor upperOf st cs).cmds <+: (streamRun actor upperOf st cs.flatten).cmds := by
  have := connLoop_prefix_stream actor upperOf cs st [] hne parse_nil
  simpa [connRunS] using this

/-- if every frame of the stream is decided within `65536 - 1024` bytes (and an unfinished tail is
    at most that long), no chunking into reads of ≤ 1024 bytes overflows -/
theorem C13_no_overflow {σ : Type} (actor : σ → ThrottleReq → ActorAnswer × σ)
    (upperOf : List UInt8 → List UInt8) (st : σ) (s : List UInt8) (cs : List (List UInt8))
    (h : IsChunking cs s) (hsmall : FramesSmall s) :
    (connRunS actor upperOf st cs).end ≠ .overflow :=
  connLoop_no_overflow actor upperOf cs st [] (fun c hc => h.2 c hc)
    (by simpa [h.1] using hsmall) parse_nil

/-- the buffer handed to `parse` never exceeds 64 KiB -/
theorem C13_buffer_cap {σ : Type} (actor : σ → ThrottleReq → ActorAnswer × σ)
    (upperOf : List UInt8 → List UInt8) (st : σ) (cs : List (List UInt8)) :
    ∀ n ∈ (connRunS actor upperOf st cs).parsed, n ≤ 65536 := by
  have := connLoop_parsed_cap actor upperOf cs st []
  simpa [RESP_MAX_BUFFER, connRunS] using this

/-- a connection that is still open holds at most 64 KiB of undecoded input -/
theorem C13_open_buffer_cap {σ : Type} (actor : σ → ThrottleReq → ActorAnswer × σ)
    (upperOf : List UInt8 → List UInt8) (st : σ) (cs : List (List UInt8)) (buf : List UInt8)
    (h : (connRunS actor upperOf st cs).end = .open buf) : buf.length ≤ 65536 := by
  have := connLoop_open_cap actor upperOf cs st [] buf (by simp) h
  simpa [RESP_MAX_BUFFER] using this

/-- a frame that is still undecided after 64 KiB always ends the connection: if the stream is
    longer than the cap and its first 65536 bytes are "need more data", every chunking overflows
    and nothing is written or decoded -/
theorem C13_long_frame_overflows {σ : Type} (actor : σ → ThrottleReq → ActorAnswer × σ)
    (upperOf : List UInt8 → List UInt8) (st : σ) (s : List UInt8) (cs : List (List UInt8))
    (h : IsChunking cs s) (hinc : parse (s.take 65536) = .incomplete) (hlen : 65536 < s.length) :
    (connRunS actor upperOf st cs).end = .overflow ∧ (connRunS actor upperOf st cs).out = [] ∧
    (connRunS actor upperOf st cs).cmds = [] :=
  connLoop_long_frame actor upperOf cs st [] (fun c hc => (h.2 c hc).1) (by simp)
    (by simpa [h.1, RESP_MAX_BUFFER] using hinc) (by simpa [h.1, RESP_MAX_BUFFER] using hlen)

/-! ## the hypotheses are satisfiable -/

example : parse b!"*2\r\n$4\r\nPING\r\n$2\r\nhi\r\n"
    = .ok (.array [.bulk (some b!"PING"), .bulk (some b!"hi")]) 22 := by rfl

example : parse b!"*2\r\n$4\r\nPING\r\n$2\r\nhi\r" = .incomplete := by rfl

example : parse b!"$600000000\r\n" = .error := by rfl

/-- invalid UTF-8 (`$2 <FF FE>`) -/
example : parse [36, 50, 13, 10, 0xFF, 0xFE, 13, 10] = .error := by rfl

/-- the two trailing bytes of a bulk string are NOT checked (Rust behaviour, kept by the model) -/
example : parse b!"$1\r\naXY" = .ok (.bulk (some b!"a")) 7 := by rfl

/-- on an element error the counter is NOT decremented (here it stays at 1) -/
example : decodeD RESP_MAX_DEPTH 0 b!"*1\r\n?" = (.error, 1) := by rfl

example : decodeD RESP_MAX_DEPTH 0 b!"*2\r\n*1\r\n:1\r\n*1\r\n:" = (.incomplete, 0) := by rfl

example : FramesSmall b!"*1\r\n$4\r\nPING\r\n+x" :=
  .frame _ (.array [.bulk (some b!"PING")]) 14 (by rfl) (.tail _ (by rfl) (by decide))

example : IsChunking [b!"*1\r\n$4\r\nPI", b!"NG\r\n"] b!"*1\r\n$4\r\nPING\r\n" := by
  refine ⟨rfl, ?_⟩
  intro c hc
  simp only [List.mem_cons, List.not_mem_nil, or_false] at hc
  rcases hc with rfl | rfl <;> exact ⟨by decide, by decide⟩

end TcVerif.Resp
