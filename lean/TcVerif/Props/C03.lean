/-
  C03 — Response fields are truthful: limit, remaining, retry_after, reset_after.

  Every theorem is about ONE response produced from ANY reachable state of a fixed-limits key
  in D — `Rel E B c b t` holds in every state reached by any history (`C03_reachable`), and by
  `C03_probe_is_cell_step` a probe appended to any multi-key history on any store is answered
  by one more step on the key's cell.  "Probing from a copy of the state" is therefore
  "one more `rateLimitE Cell.ops` step from `(c', b')`".
-/
import TcVerif.Lemmas.Reach
namespace TcVerif

theorem C03_reachable {ei : Int → Int → Int} {E B : Int} (rs : List Req) (t0 : Int)
    (h : FixedD ei E B t0 rs) :
    Rel E B (stateAfter Cell.ops ei none rs) (bucketAfter B E none (rs.map reqTQ)) (lastTime t0 rs) :=
  rel_after rs t0 none none h (rel_fresh E B t0)

theorem C03_probe_is_cell_step (ei : Int → Int → Int) (k : Key) (rs : List Req) (x : Req) (t0 : Int)
    (st : AnyStore) (hst : st.data = []) (hm : MonotoneFrom t0 (rs ++ [x])) (hk : x.key = k) :
    (runTagged AnyStore.ops ei st (rs ++ [x])).getLast? =
      some (x, (rateLimitE Cell.ops (stateAfter Cell.ops ei none (rs.filter (fun r => r.key = k)))
                  (ei x.count x.period) x).2.1) :=
  probe_response ei k rs x t0 st hst hm hk

theorem lvlAfter_range {E B : Int} (b : Option Bucket) (t : Int) (r : Req) (c : Cell)
    (h : StepD E B t r) (hrel : Rel E B c b t) :
    0 ≤ lvlAfter B E b r.now r.qty ∧ lvlAfter B E b r.now r.qty ≤ B * E := by
  have hE := h.dom.hE; have hEle := h.dom.E_le
  have hq : 0 ≤ r.qty * E := Int.mul_nonneg h.valid.1 (by omega)
  have hl : 0 ≤ Bucket.refill (B * E) b r.now ∧ Bucket.refill (B * E) b r.now ≤ B * E := by
    unfold Bucket.refill
    cases b with
    | none => simp only; omega
    | some bk => have := hrel.2; have := h.mono; simp only at this ⊢; omega
  unfold lvlAfter
  split <;> omega

section
variable {E B : Int} (c : Cell) (b : Option Bucket) (t : Int) (r : Req)
  (h : StepD E B t r) (hrel : Rel E B c b t)
include h hrel

/-- `limit = max_burst`, `0 ≤ remaining ≤ limit`, `retry_after = 0` exactly when admitted -/
theorem C03_limit_remaining_retry :
    (rateLimitE Cell.ops c E r).2.1.limit = B ∧
    0 ≤ (rateLimitE Cell.ops c E r).2.1.remaining ∧
    (rateLimitE Cell.ops c E r).2.1.remaining ≤ B ∧
    ((rateLimitE Cell.ops c E r).2.1.retryNs = 0 ↔ (rateLimitE Cell.ops c E r).2.1.allowed = true) := by
  have f := cell_step_facts c b t r h hrel
  have hE := h.dom.hE
  obtain ⟨l0, l1⟩ := lvlAfter_range b t r c h hrel
  refine ⟨f.limit, ?_, ?_, ?_⟩
  · rw [f.remaining]; exact Int.ediv_nonneg l0 (by omega)
  · rw [f.remaining]
    have hc : B * E / E = B := Int.mul_ediv_cancel _ (by omega)
    have := Int.ediv_le_ediv (by omega : 0 < E) l1
    omega
  · constructor
    · intro h0
      cases ha : (rateLimitE Cell.ops c E r).2.1.allowed with
      | true => rfl
      | false => have := f.retry_pos ha; omega
    · exact f.retry_zero

/-- **remaining is exact**: immediately afterwards (same instant, from the state the response
    was produced in) a request for `q` tokens is admitted iff `q ≤ remaining`; in particular
    `remaining` is admitted and `remaining + 1` is denied. -/
theorem C03_remaining_exact (q : Int) (hq : 0 ≤ q) :
    (rateLimitE Cell.ops (rateLimitE Cell.ops c E r).1 E { r with qty := q }).2.1.allowed
      = decide (q ≤ (rateLimitE Cell.ops c E r).2.1.remaining) := by
  have f := cell_step_facts c b t r h hrel
  have hE := h.dom.hE
  obtain ⟨_, _, _, _, hrel'⟩ := cell_bucket_step c b t r h hrel
  have h' : StepD E B r.now { r with qty := q } :=
    ⟨h.dom, h.burst, ⟨hq, h.valid.2⟩, Int.le_refl _, h.now0, h.now1⟩
  have f' := cell_step_facts _ _ r.now { r with qty := q } h' hrel'
  obtain ⟨l0, l1⟩ := lvlAfter_range b t r c h hrel
  rw [f'.allowed, f.remaining, bucket_step_state]
  simp only [Bucket.refill]
  generalize lvlAfter B E b r.now r.qty = lvl at *
  have hm : min (B * E) (lvl + (r.now - r.now)) = lvl := by omega
  have hiff : q * E ≤ lvl ↔ q ≤ lvl / E := (Int.le_ediv_iff_mul_le (by omega)).symm
  have key : (q * E ≤ min (B * E) (lvl + (r.now - r.now))) ↔ q ≤ lvl / E := by rw [hm]; exact hiff
  simp only [key]

/-- in particular: `remaining` tokens are admitted, `remaining + 1` are denied -/
theorem C03_remaining_admitted_next_denied :
    (rateLimitE Cell.ops (rateLimitE Cell.ops c E r).1 E
        { r with qty := (rateLimitE Cell.ops c E r).2.1.remaining }).2.1.allowed = true ∧
    (rateLimitE Cell.ops (rateLimitE Cell.ops c E r).1 E
        { r with qty := (rateLimitE Cell.ops c E r).2.1.remaining + 1 }).2.1.allowed = false := by
  have hr := (C03_limit_remaining_retry c b t r h hrel).2.1
  constructor
  · rw [C03_remaining_exact c b t r h hrel _ hr]; simp
  · rw [C03_remaining_exact c b t r h hrel _ (by omega)]; simp; omega

/-- **retry_after is honoured**: a denied request of quantity ≤ max_burst, repeated `retry_after`
    later with no other traffic on the key, is admitted — and 1 ns earlier it is still denied
    (whether or not the key's entry has expired in between). -/
theorem C03_retry_honoured (hden : (rateLimitE Cell.ops c E r).2.1.allowed = false) (hqb : r.qty ≤ B)
    (hT : r.now + (rateLimitE Cell.ops c E r).2.1.retryNs ≤ T_MAX) :
    (rateLimitE Cell.ops (rateLimitE Cell.ops c E r).1 E
        { r with now := r.now + (rateLimitE Cell.ops c E r).2.1.retryNs }).2.1.allowed = true ∧
    (rateLimitE Cell.ops (rateLimitE Cell.ops c E r).1 E
        { r with now := r.now + (rateLimitE Cell.ops c E r).2.1.retryNs - 1 }).2.1.allowed = false := by
  have f := cell_step_facts c b t r h hrel
  have hE := h.dom.hE; have hEle := h.dom.E_le
  obtain ⟨_, _, _, _, hrel'⟩ := cell_bucket_step c b t r h hrel
  have hpos := f.retry_pos hden
  have hex := f.retry_exact hden hqb
  have hqE : r.qty * E ≤ B * E := Int.mul_le_mul_of_nonneg_right hqb (by omega)
  -- denied: the bucket level stays at the refilled level
  have hdec : ¬ r.qty * E ≤ Bucket.refill (B * E) b r.now := by
    have := f.allowed; rw [hden] at this; simpa using this.symm
  have hlvl : lvlAfter B E b r.now r.qty = Bucket.refill (B * E) b r.now := by
    unfold lvlAfter; simp [hdec]
  obtain ⟨l0, l1⟩ := lvlAfter_range b t r c h hrel
  rw [bucket_step_state, hlvl] at hrel'
  rw [hlvl] at l0 l1
  generalize Bucket.refill (B * E) b r.now = lvl at *
  generalize (rateLimitE Cell.ops c E r).2.1.retryNs = retry at *
  have hqq : ∀ x : Int, ({ r with now := x } : Req).qty = r.qty := fun _ => rfl
  have hnn : ∀ x : Int, ({ r with now := x } : Req).now = x := fun _ => rfl
  constructor
  · have h' : StepD E B r.now { r with now := r.now + retry } :=
      ⟨h.dom, h.burst, h.valid, by simp only; omega, by simp only; have := h.now0; omega, hT⟩
    have f' := cell_step_facts _ _ r.now { r with now := r.now + retry } h' hrel'
    rw [f'.allowed]
    simp only [Bucket.refill, hqq, hnn]
    exact decide_eq_true (by omega)
  · have h' : StepD E B r.now { r with now := r.now + retry - 1 } :=
      ⟨h.dom, h.burst, h.valid, by simp only; omega, by simp only; have := h.now0; omega, by simp only; omega⟩
    have f' := cell_step_facts _ _ r.now { r with now := r.now + retry - 1 } h' hrel'
    rw [f'.allowed]
    simp only [Bucket.refill, hqq, hnn]
    exact decide_eq_false (by omega)

/-- `reset_after` is never shorter than the time to regain the full burst -/
theorem C03_reset_ge_refill :
    B * E - lvlAfter B E b r.now r.qty ≤ (rateLimitE Cell.ops c E r).2.1.resetNs := by
  have f := cell_step_facts c b t r h hrel
  rw [f.reset]
  have : E ≤ max (B * E - E) E := Int.le_max_right _ _
  omega

/-- `reset_after` equals the lifetime the limiter asks the store to keep the key's state:
    every write issued by the call carries `ttl = reset_after` (and there is at most one write) -/
theorem C03_reset_eq_lifetime :
    ∀ op ∈ (rateLimitE Cell.ops c E r).2.2, ∀ ttl, op.ttl? = some ttl →
      ttl = (rateLimitE Cell.ops c E r).2.1.resetNs := by
  have f := cell_step_facts c b t r h hrel
  intro op hop ttl httl
  rw [f.trace] at hop
  simp only [List.mem_append, List.mem_singleton] at hop
  rcases hop with hop | hop
  · subst hop; simp [StoreOp.ttl?] at httl
  · split at hop
    · simp only [List.mem_singleton] at hop
      cases hg : Cell.ops.get c r.key r.now with
      | none =>
        rw [hg] at hop; subst hop
        simp only [StoreOp.ttl?, Option.some.injEq] at httl; exact httl.symm
      | some old =>
        rw [hg] at hop; subst hop
        simp only [StoreOp.ttl?, Option.some.injEq] at httl; exact httl.symm
    · cases hop

/-- once `reset_after` has elapsed the key behaves exactly as a never-seen key -/
theorem C03_reset_then_fresh (x : Req) (hx : x.valid)
    (ht : r.now + (rateLimitE Cell.ops c E r).2.1.resetNs ≤ x.now) :
    (rateLimitE Cell.ops (rateLimitE Cell.ops c E r).1 E x).2.1 = (rateLimitE Cell.ops none E x).2.1 := by
  have f := cell_step_facts c b t r h hrel
  have hE := h.dom.hE; have hEle := h.dom.E_le
  obtain ⟨_, _, _, _, hrel'⟩ := cell_bucket_step c b t r h hrel
  rw [bucket_step_state] at hrel'
  rw [(rateLimitE_cell _ E x hx).2, (rateLimitE_cell none E x hx).2]
  have hget : Cell.ops.get (rateLimitE Cell.ops c E r).1 x.key x.now = none := by
    obtain ⟨hc, hb⟩ := hrel'
    cases hcell : (rateLimitE Cell.ops c E r).1 with
    | none => rfl
    | some pr =>
      obtain ⟨v, e⟩ := pr
      rw [hcell] at hc hb
      obtain ⟨he, _, _⟩ := hc
      obtain ⟨_, _, _, hl⟩ := hb
      simp only [LvlOK] at hl
      rw [f.reset] at ht
      have hpad : E ≤ max (B * E - E) E := Int.le_max_right _ _
      have : ¬ e > x.now := by omega
      simp [Cell.ops, Cell.live, this]
  rw [hget]
  rfl

end
end TcVerif
