/-
  C02 — No unjust denial: decisions equal the ideal GCRA / token bucket, nothing starves a key.

  Spec: `TcVerif/Model/Bucket.lean` — capacity `B*E` ns of credit, refilled by 1 ns per ns, a
  request of `q` tokens costs `q*E`; a never-seen key is a full bucket.  The spec has no TAT,
  no expiry, no store.
  Implementation model: `rateLimitE` over ANY store (kind, configuration, cleanup schedule),
  multi-key histories with globally non-decreasing timestamps; the key under observation
  uses fixed limits in the domain D (`FixedD`: burst ≥ 1, E ≥ 1 ns, B·E ≤ 2^60 ns, valid
  quantities ≥ 0 of ANY size incl. 0 and > burst, 0 ≤ time ≤ 2100-01-01); the other keys'
  requests are arbitrary (any limits, valid or not).
-/
import TcVerif.Lemmas.History
import TcVerif.Props.C05
import TcVerif.Props.C18
namespace TcVerif

/-- **C02 (refinement).** Every decision (and the reported remaining tokens) for key `k`, at every
    step of every history, equals that of the ideal token bucket started full. -/
theorem C02_refines_bucket (ei : Int → Int → Int) (k : Key) (rs : List Req) (t0 : Int) (E B : Int)
    (st : AnyStore) (hst : st.data = []) (hm : MonotoneFrom t0 rs)
    (hfix : FixedD ei E B t0 (rs.filter (fun r => r.key = k))) :
    ((runTagged AnyStore.ops ei st rs).filter (fun p => p.1.key = k)).map (fun p => (p.2.allowed, p.2.remaining))
      = Bucket.runFull B E none ((rs.filter (fun r => r.key = k)).map reqTQ) := by
  rw [C05_projection_to_cell ei k rs t0 st hst hm]
  exact (cell_run_bucket _ t0 none none hfix (rel_fresh E B t0) 0 0).1

/-- every such request is answered with a result (never an error), with `limit = max_burst` -/
theorem C02_always_answered (ei : Int → Int → Int) (k : Key) (rs : List Req) (t0 : Int) (E B : Int)
    (st : AnyStore) (hst : st.data = []) (hm : MonotoneFrom t0 rs)
    (hfix : FixedD ei E B t0 (rs.filter (fun r => r.key = k))) :
    ∀ p ∈ (runTagged AnyStore.ops ei st rs).filter (fun p => p.1.key = k), p.2.isOk = true ∧ p.2.limit = B := by
  rw [C05_projection_to_cell ei k rs t0 st hst hm]
  exact (cell_run_bucket _ t0 none none hfix (rel_fresh E B t0) 0 0).2.1

/-- **C02 for `rate_limit` itself**: limits `(B, c, p)` in the property's domain, the interval as the
    code computes it (= `p·10⁹ / c` by C18): every decision and every `remaining` for key `k` equal
    those of the ideal bucket of capacity `B` refilled by one token per `p·10⁹ / c` ns. -/
theorem C02_refines_bucket_rate_limit (k : Key) (rs : List Req) (t0 : Int) (B c p : Int)
    (st : AnyStore) (hst : st.data = []) (hm : MonotoneFrom t0 rs)
    (hp1 : 1 ≤ p) (hp2 : p ≤ 9000000) (hc1 : 1 ≤ c) (hc2 : c ≤ p * 1000000000) (hB : 1 ≤ B)
    (hBE : B * (p * 1000000000 / c) ≤ TWO60)
    (hreqs : ∀ r ∈ rs, r.key = k → r.burst = B ∧ r.count = c ∧ r.period = p ∧ 0 ≤ r.qty ∧ 0 ≤ r.now ∧ r.now ≤ T_MAX) :
    ((runTagged AnyStore.ops emissionInterval st rs).filter (fun x => x.1.key = k)).map (fun x => (x.2.allowed, x.2.remaining))
      = Bucket.runFull B (p * 1000000000 / c) none ((rs.filter (fun r => r.key = k)).map reqTQ) := by
  have hE : emissionInterval c p = p * 1000000000 / c := C18_floor c p hp1 hp2 hc1 hc2
  have hE1 : 1 ≤ p * 1000000000 / c := by
    have := (Int.le_ediv_iff_mul_le (by omega : 0 < c)).mpr (by omega : 1 * c ≤ p * 1000000000)
    omega
  have hD : DomD (p * 1000000000 / c) B := ⟨hE1, hB, hBE⟩
  have hfix := fixedD_of_forall emissionInterval (p * 1000000000 / c) B k rs t0 hD hm (by
    intro r hr hk
    obtain ⟨h1, h2, h3, h4, h5, h6⟩ := hreqs r hr hk
    exact ⟨h1, by rw [h2, h3]; exact hE, ⟨h4, by omega, by omega, by omega⟩, h5, h6⟩)
  exact C02_refines_bucket emissionInterval k rs t0 _ B st hst hm hfix

/-! #### consequences read off the specification -/

/-- a never-seen key admits any quantity up to `max_burst` -/
theorem C02_fresh_admits_up_to_burst (B E t q : Int) (hE : 0 ≤ E) (hq : q ≤ B) :
    (Bucket.step B E none t q).2.1 = true := by
  have : q * E ≤ B * E := Int.mul_le_mul_of_nonneg_right hq hE
  simp [Bucket.step, Bucket.refill, this]

/-- a fully rested key (idle for the time it takes to refill) admits any quantity up to `max_burst` -/
theorem C02_rested_admits_up_to_burst (B E t q : Int) (b : Bucket) (hE : 0 ≤ E) (hq : q ≤ B)
    (hrest : B * E - b.lvl ≤ t - b.ts) : (Bucket.step B E (some b) t q).2.1 = true := by
  have : q * E ≤ B * E := Int.mul_le_mul_of_nonneg_right hq hE
  have h2 : q * E ≤ min (B * E) (b.lvl + (t - b.ts)) := by omega
  simp [Bucket.step, Bucket.refill, h2]

/-- **no starvation**: whatever state earlier requests left (denied ones, zero-quantity ones,
    over-burst ones included), a request of quantity ≤ max_burst is admitted at every instant
    from `ts + (q*E - lvl)` on — a finite wait of at most `B*E` -/
theorem C02_no_starvation (B E t q : Int) (b : Bucket) (hE : 0 ≤ E) (hq : q ≤ B)
    (hwait : q * E - b.lvl ≤ t - b.ts) : (Bucket.step B E (some b) t q).2.1 = true := by
  have : q * E ≤ B * E := Int.mul_le_mul_of_nonneg_right hq hE
  have h2 : q * E ≤ min (B * E) (b.lvl + (t - b.ts)) := by omega
  simp [Bucket.step, Bucket.refill, h2]

/-- and a request is denied ONLY when the bucket does not hold its cost -/
theorem C02_denied_only_if_short (B E t q : Int) (b : Option Bucket) :
    (Bucket.step B E b t q).2.1 = false ↔ Bucket.refill (B * E) b t < q * E := by
  simp [Bucket.step]

/-- requests never drive the level negative or above capacity -/
theorem C02_level_in_range (B E t q : Int) (b : Option Bucket) (hE : 0 ≤ E) (hB : 0 ≤ B)
    (hwf : Bucket.wf (B * E) b) (hts : ∀ bk, b = some bk → bk.ts ≤ t) (hq : 0 ≤ q) :
    Bucket.wf (B * E) (Bucket.step B E b t q).1 := by
  have hBE : 0 ≤ B * E := Int.mul_nonneg hB hE
  have hqE : 0 ≤ q * E := Int.mul_nonneg hq hE
  have hl : 0 ≤ Bucket.refill (B * E) b t ∧ Bucket.refill (B * E) b t ≤ B * E := by
    unfold Bucket.refill
    cases b with
    | none => simp only; omega
    | some bk => have := hts bk rfl; obtain ⟨h1, h2⟩ := hwf; simp only; omega
  simp only [Bucket.step, Bucket.wf]
  by_cases hx : q * E ≤ Bucket.refill (B * E) b t <;> simp [hx] <;> omega

/-- **no starvation from ANY stored state** - also one left behind by requests with other limits, by
    denied / zero-quantity / over-burst requests, or by a state that has meanwhile expired: whatever
    value `v` the store holds for the key (within the range any request in the time domain can have
    written), a request of quantity `q ≤ max_burst` under limits in D is admitted at every instant
    `now ≥ v + q·E - τ`, a finite time (and immediately if nothing visible is stored). -/
theorem C02_no_starvation_any_state {E B : Int} (c : Cell) (r : Req) (hD : DomD E B) (hb : r.burst = B)
    (hv : r.valid) (hn0 : 0 ≤ r.now) (hn1 : r.now ≤ T_MAX) (hq : r.qty ≤ B)
    (hrange : ∀ v, Cell.ops.get c r.key r.now = some v → -TWO62 ≤ v ∧ v ≤ V_MAX)
    (hwait : ∀ v, Cell.ops.get c r.key r.now = some v → v + r.qty * E - (B * E - E) ≤ r.now) :
    (rateLimitE Cell.ops c E r).2.1.allowed = true := by
  have hE := hD.hE
  rw [(rateLimitE_cell c E r hv).2]
  have hreq : ReqD E B r (Cell.ops.get c r.key r.now) := ⟨hD, hb, hv.1, hn0, hn1, hrange⟩
  obtain ⟨_, d2, _, _, _, _, d7, _⟩ := decision_D hreq (B * E - E) _ (E * r.qty) rfl rfl rfl
  rw [d7]
  apply d2.mpr
  have hcomm : r.qty * E = E * r.qty := Int.mul_comm _ _
  have hqE : E * r.qty ≤ B * E := by
    rw [← hcomm]; exact Int.mul_le_mul_of_nonneg_right hq (by omega)
  unfold gTat effTat
  cases hg : Cell.ops.get c r.key r.now with
  | none => simp only; omega
  | some v =>
    have := hwait v hg
    simp only
    omega

/-! #### non-vacuity: burst 2, one token per second, idle gap, over-burst and zero-quantity requests -/

def exHist2 : List Req :=
  [⟨"k", 2, 1, 1, 1, 1000000000⟩, ⟨"k", 2, 1, 1, 2, 1000000000⟩, ⟨"x", 0, 0, 0, -1, 1000000000⟩,
   ⟨"k", 2, 1, 1, 1, 1000000000⟩, ⟨"k", 2, 1, 1, 0, 1500000000⟩, ⟨"k", 2, 1, 1, 3, 9000000000⟩,
   ⟨"k", 2, 1, 1, 2, 9000000000⟩]

theorem exHist2_fixed : FixedD (fun c p => p * 1000000000 / c) 1000000000 2 0 (exHist2.filter (fun r => r.key = "k")) := by
  simp only [exHist2, List.filter, FixedD]
  refine ⟨⟨⟨by decide, by decide, by decide⟩, rfl, ⟨by decide, by decide, by decide, by decide⟩, by decide, by decide, by decide⟩, by decide, ?_⟩
  refine ⟨⟨⟨by decide, by decide, by decide⟩, rfl, ⟨by decide, by decide, by decide, by decide⟩, by decide, by decide, by decide⟩, by decide, ?_⟩
  refine ⟨⟨⟨by decide, by decide, by decide⟩, rfl, ⟨by decide, by decide, by decide, by decide⟩, by decide, by decide, by decide⟩, by decide, ?_⟩
  refine ⟨⟨⟨by decide, by decide, by decide⟩, rfl, ⟨by decide, by decide, by decide, by decide⟩, by decide, by decide, by decide⟩, by decide, ?_⟩
  refine ⟨⟨⟨by decide, by decide, by decide⟩, rfl, ⟨by decide, by decide, by decide, by decide⟩, by decide, by decide, by decide⟩, by decide, ?_⟩
  exact ⟨⟨⟨by decide, by decide, by decide⟩, rfl, ⟨by decide, by decide, by decide, by decide⟩, by decide, by decide, by decide⟩, by decide, trivial⟩

example : MonotoneFrom 0 exHist2 := by decide

example : Bucket.runFull 2 1000000000 none ((exHist2.filter (fun r => r.key = "k")).map reqTQ)
    = [(true, 1), (false, 1), (true, 0), (true, 0), (false, 2), (true, 0)] := by decide

end TcVerif
