/-
  C15 — Metrics add up and match what clients were told.
  Property theorems only; helper lemmas are in `TcVerif/Lemmas/MetricsCounters.lean` and
  `TcVerif/Lemmas/MetricsResp.lean`.

  Concurrency model (`Model/Metrics.lean`): any number of `record_request` / `record_error` calls
  in flight, each a list of atomic increments in program order; `Reachable` = every interleaving.
-/
import TcVerif.Lemmas.MetricsCounters
import TcVerif.Lemmas.MetricsResp

namespace TcVerif.Metrics
open TcVerif.Gen

/-- every reachable state, ANY interleaving, in-flight calls accounted for:
    counter + increments still owed by calls in flight = increments of all calls started -/
theorem C15_accounting {s : State} (hr : Reachable s) (c : Counter) :
    s.counters.get c + pending s.flights c = due s.history c :=
  inv_of_reachable hr c

/-- whenever no request is in flight: total = HTTP + gRPC + RESP = allowed + denied + errors -/
theorem C15_identities {s : State} (hr : Reachable s) (hq : Quiescent s) :
    s.counters.total = s.counters.http + s.counters.grpc + s.counters.redis ∧
    s.counters.total = s.counters.allowed + s.counters.denied + s.counters.errors := by
  have g := get_eq_due hr hq
  have h1 := due_total_transports s.history
  have h2 := due_total_outcomes s.history
  rw [← g .total, ← g .http, ← g .grpc, ← g .redis] at h1
  rw [← g .total, ← g .allowed, ← g .denied, ← g .errors] at h2
  exact ⟨h1, h2⟩

/-- even with requests in flight (every call bumps `total` FIRST) the breakdowns never exceed
    the total -/
theorem C15_inflight_le_total {s : State} (hr : Reachable s) :
    s.counters.http + s.counters.grpc + s.counters.redis ≤ s.counters.total ∧
    s.counters.allowed + s.counters.denied + s.counters.errors ≤ s.counters.total := by
  have g := inv_of_reachable hr
  have p := pending_total_le (suffixInv_of_reachable hr)
  have h1 := due_total_transports s.history
  have h2 := due_total_outcomes s.history
  have a := g .total; have b := g .http; have c := g .grpc; have d := g .redis
  have e := g .allowed; have f := g .denied; have i := g .errors
  simp only [Counters.get] at a b c d e f i
  omega

/-- counters never decrease: every step of every recorder leaves every counter ≥ its old value -/
theorem C15_monotone {s s' : State} (h : Step s s') (c : Counter) :
    s.counters.get c ≤ s'.counters.get c := by
  cases h with
  | start e => exact Nat.le_refl _
  | inc pre post e x rest hf => exact get_le_bump _ _ _
  | finish pre post e hf => exact Nat.le_refl _

/-- at a quiescent point the counters are exactly the numbers of calls of each kind that were
    made: `denied` = denied decisions, `allowed` = allowed decisions, `errors` = errors,
    transport counters = calls per transport, `total` = all calls -/
theorem C15_denied_exact {s : State} (hr : Reachable s) (hq : Quiescent s) :
    s.counters.denied = s.history.countP Event.isDenied ∧
    s.counters.allowed = s.history.countP Event.isAllowed ∧
    s.counters.errors = s.history.countP Event.isError ∧
    s.counters.http = s.history.countP (Event.onTransport .http) ∧
    s.counters.grpc = s.history.countP (Event.onTransport .grpc) ∧
    s.counters.redis = s.history.countP (Event.onTransport .redis) ∧
    s.counters.total = s.history.length := by
  have g := get_eq_due hr hq
  refine ⟨?_, ?_, ?_, ?_, ?_, ?_, ?_⟩
  · exact (g .denied).trans (due_eq_countP _ _ _ ev_denied)
  · exact (g .allowed).trans (due_eq_countP _ _ _ ev_allowed)
  · exact (g .errors).trans (due_eq_countP _ _ _ ev_errors)
  · exact (g .http).trans (due_eq_countP _ _ _ (fun e => ev_transport e .http))
  · exact (g .grpc).trans (due_eq_countP _ _ _ (fun e => ev_transport e .grpc))
  · exact (g .redis).trans (due_eq_countP _ _ _ (fun e => ev_transport e .redis))
  · exact (g .total).trans (due_total _)

/-- so `allowed + errors` is everything that was not a denied decision -/
theorem C15_allowed_errors_rest {s : State} (hr : Reachable s) (hq : Quiescent s) :
    s.counters.allowed + s.counters.errors
      = s.history.length - s.history.countP Event.isDenied := by
  have h := C15_denied_exact hr hq
  have i := (C15_identities hr hq).2
  omega

/-- the sequential run used by the differential harness (`mrun`) is the same accounting -/
theorem C15_sequential (es : List Event) (c : Counter) :
    ((Counters.recordAll {} es).get c) = due es c := by
  rw [get_recordAll]; cases c <;> simp [Counters.get]

/-- the three early returns of the RESP command handler (value not an array, empty array, first
    element not a non-null bulk string) record nothing: they answer with a fixed protocol error,
    send nothing to the limiter and return no decision - so recording no event keeps every
    identity of `C15_identities` and `C15_denied_exact`; every other command is recorded
    (classified by `C15_resp_classification`). -/
theorem C15_resp_uncounted (v : Resp.Value) (upper : Option (List UInt8)) (h : Resp.counted v upper = false) :
    Resp.plan v upper = .reply (.error b!"ERR expected array of commands") ∨
    Resp.plan v upper = .reply (.error b!"ERR empty command") ∨
    Resp.plan v upper = .reply (.error b!"ERR invalid command format") := by
  unfold Resp.counted at h
  cases v with
  | array xs =>
    cases xs with
    | nil => right; left; rfl
    | cons first rest =>
      right; right
      cases first with
      | bulk s =>
        cases s with
        | none => rfl
        | some name =>
          cases upper with
          | none => rfl
          | some up => simp at h
      | simple _ => rfl
      | error _ => rfl
      | int _ => rfl
      | array _ => rfl
  | simple _ => left; rfl
  | error _ => left; rfl
  | int _ => left; rfl
  | bulk _ => left; rfl

/-- RESP command layer: the recorded call is `request redis false` exactly when the command was a
    THROTTLE that was sent to the limiter and answered `ok false ..`; every other command (PING
    with any arguments, QUIT, unknown, malformed THROTTLE, limiter error, no answer) records
    `request redis true`; a denied decision's key is the key that goes to the tracker. -/
theorem C15_resp_classification (v : Resp.Value) (upper : Option (List UInt8))
    (a : Option Resp.ActorAnswer) :
    (respEvent v upper a = .request .redis false ↔
      ∃ req l r rs rt, Resp.plan v upper = .send req ∧ a = some (.ok false l r rs rt)) ∧
    (respEvent v upper a ≠ .request .redis false → respEvent v upper a = .request .redis true) ∧
    (∀ req, Resp.plan v upper = .send req →
      (∃ c rest, v = .array (.bulk (some c) :: rest) ∧ upper = some b!"THROTTLE" ∧
        Resp.handleThrottle (.bulk (some c) :: rest) = .send req) ∧
      respKey v upper a = some req.key) := by
  refine ⟨?_, ?_, ?_⟩
  · rw [← metric_allowed_false_iff]
    simp [respEvent]
  · intro h
    simp only [respEvent, ne_eq, Event.request.injEq, true_and] at h ⊢
    simpa using h
  · intro req hp
    exact ⟨plan_send_is_throttle hp, metric_key_of_send a hp⟩

/-- instances named in the property: whatever is not sent to the limiter is recorded allowed -/
theorem C15_resp_not_sent_allowed (v : Resp.Value) (upper : Option (List UInt8))
    (a : Option Resp.ActorAnswer) (reply : Resp.Value) (h : Resp.plan v upper = .reply reply) :
    respEvent v upper a = .request .redis true := by
  apply (C15_resp_classification v upper a).2.1
  intro hd
  obtain ⟨req, _, _, _, _, hp, _⟩ := (C15_resp_classification v upper a).1.1 hd
  rw [h] at hp; cases hp

/-- a limiter error, an allowed answer, or no answer at all is recorded allowed -/
theorem C15_resp_error_allowed (v : Resp.Value) (upper : Option (List UInt8)) :
    (∀ msg, respEvent v upper (some (.err msg)) = .request .redis true) ∧
    (∀ l r rs rt, respEvent v upper (some (.ok true l r rs rt)) = .request .redis true) ∧
    respEvent v upper none = .request .redis true := by
  refine ⟨fun msg => ?_, fun l r rs rt => ?_, ?_⟩ <;>
  · apply (C15_resp_classification v upper _).2.1
    intro hd
    obtain ⟨_, _, _, _, _, _, ha⟩ := (C15_resp_classification v upper _).1.1 hd
    cases ha

/-- `/metrics` reports exactly the seven counter values, in file order -/
theorem C15_export_values (c : Counters) :
    (exportCounters c).map (·.2)
      = [c.total, c.http, c.grpc, c.redis, c.allowed, c.denied, c.errors] ∧
    (exportCounters c).map (·.1)
      = ["throttlecrab_requests_total",
         "throttlecrab_requests_by_transport{transport=\"http\"}",
         "throttlecrab_requests_by_transport{transport=\"grpc\"}",
         "throttlecrab_requests_by_transport{transport=\"redis\"}",
         "throttlecrab_requests_allowed",
         "throttlecrab_requests_denied",
         "throttlecrab_requests_errors"] :=
  ⟨rfl, rfl⟩

/-- the model's increment lists are the ones extracted from the Rust source on this run: the
    sorted, de-duplicated names of all counters `recordRequest` / `recordError` can bump over all
    (transport, outcome) equal the generated tables (a dropped or added `fetch_add` breaks this) -/
theorem C15_table_tie :
    recordRequestIncs = RECORD_REQUEST_INCS ∧ recordErrorIncs = RECORD_ERROR_INCS := by
  decide

/-! ## non-vacuity -/

/-- a reachable quiescent state after a truly interleaved run: a denied HTTP request and a gRPC
    error whose increments alternate -/
example : ∃ s, Reachable s ∧ Quiescent s ∧
    s.counters = { total := 2, http := 1, grpc := 1, denied := 1, errors := 1 } ∧
    s.history = [.error .grpc, .request .http false] := by
  refine ⟨⟨{ total := 2, http := 1, grpc := 1, denied := 1, errors := 1 },
    [⟨.error .grpc, []⟩, ⟨.request .http false, []⟩],
    [.error .grpc, .request .http false]⟩, ?_, ?_, ?_, ?_⟩
  · exact
      (((((((Reachable.init.step (.start _ (.request .http false))).step
        (.start _ (.error .grpc))).step
        (.inc _ [] [⟨.request .http false, [.total, .http, .denied]⟩] (.error .grpc) .total
          [.errors, .grpc] rfl)).step
        (.inc _ [⟨.error .grpc, [.errors, .grpc]⟩] [] (.request .http false) .total
          [.http, .denied] rfl)).step
        (.inc _ [⟨.error .grpc, [.errors, .grpc]⟩] [] (.request .http false) .http
          [.denied] rfl)).step
        (.inc _ [] [⟨.request .http false, [.denied]⟩] (.error .grpc) .errors [.grpc] rfl)).step
        (.inc _ [] [⟨.request .http false, [.denied]⟩] (.error .grpc) .grpc [] rfl)).step
        (.inc _ [⟨.error .grpc, []⟩] [] (.request .http false) .denied [] rfl)
  · intro f hf
    simp at hf
    rcases hf with rfl | rfl <;> rfl
  · rfl
  · rfl

/-- a reachable NON-quiescent state where the identities fail (they are only claimed at quiescent
    points): `total` was bumped, the transport counter not yet -/
example : ∃ s, Reachable s ∧ ¬ Quiescent s ∧
    s.counters.total ≠ s.counters.http + s.counters.grpc + s.counters.redis := by
  refine ⟨_, (Reachable.init.step (.start _ (.request .redis true))).step
    (.inc _ [] [] (.request .redis true) .total [.redis, .allowed] rfl), ?_, by decide⟩
  intro h
  have := h ⟨.request .redis true, [.redis, .allowed]⟩ (by simp)
  cases this

/-- a strict increase exists (monotonicity is not vacuous) -/
example : ∃ s s', Step s s' ∧ s.counters.get .total < s'.counters.get .total :=
  ⟨⟨{}, [⟨.error .http, [.total, .errors, .http]⟩], [.error .http]⟩, _,
    .inc _ [] [] (.error .http) .total [.errors, .http] rfl, by decide⟩

/-- RESP classification instances on the repaired code -/
example : respEvent (.array [.bulk (some b!"PING"), .array [.int 0, .int 0, .int 0, .int 0, .int 0]])
    (some b!"PING") none = .request .redis true := by decide

example : respEvent
    (.array [.bulk (some b!"throttle"), .bulk (some b!"k"), .int 1, .int 1, .int 60])
    (some b!"THROTTLE") (some (.ok false 2 0 60 60)) = .request .redis false := by decide

example : respKey
    (.array [.bulk (some b!"throttle"), .bulk (some b!"k"), .int 1, .int 1, .int 60])
    (some b!"THROTTLE") (some (.ok false 2 0 60 60)) = some b!"k" := by decide

example : (exportCounters ⟨7, 3, 2, 2, 3, 2, 2⟩).map (·.2) = [7, 3, 2, 2, 3, 2, 2] := by decide

/-! ### HTTP and gRPC call sites (tables regenerated from `http.rs` / `grpc.rs` on every run) -/

/-- the event an HTTP / gRPC handler records for one request: the limiter's decision if it answered,
    an error otherwise (the handlers record AFTER the decision is known) -/
def handlerEvent (t : Transport) (decision : Option Bool) : Event :=
  match decision with
  | some allowed => .request t allowed
  | none => .error t

/-- **tie**: in both handlers the `Ok` arm records the decision's own `allowed` flag with the request
    key under the handler's transport, the `Err` arm records an error, and nothing else is recorded -/
theorem C15_tie_http_grpc_calls :
    Gen.HTTP_METRIC_CALLS = [("err", "record_error(Http)"), ("ok", "record_request_with_key(Http, allowed, key)")] ∧
    Gen.GRPC_METRIC_CALLS = [("err", "record_error(Grpc)"), ("ok", "record_request_with_key(Grpc, allowed, key)")] ∧
    Gen.RESP_METRIC_CALLS = ["record_request_with_key(Redis, allowed, key)", "record_request(Redis, allowed)"] := by decide

/-- HTTP / gRPC: `denied` is recorded exactly for a decision with `allowed = false`; a limiter error
    is recorded as an error, never as allowed or denied -/
theorem C15_http_grpc_classification (t : Transport) (decision : Option Bool) :
    (handlerEvent t decision = .request t false ↔ decision = some false) ∧
    (handlerEvent t decision = .error t ↔ decision = none) ∧
    (handlerEvent t decision = .request t true ↔ decision = some true) := by
  cases decision with
  | none => simp [handlerEvent]
  | some b => cases b <;> simp [handlerEvent]

end TcVerif.Metrics
