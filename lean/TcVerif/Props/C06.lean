/-
  C06 — Stores are interchangeable: each is exactly a map with per-entry expiry.

  Model: `TcVerif/Model/Store.lean` (the three concrete stores with their full cleanup
  scheduling state, and `AMap`, the abstract expiring map that never sweeps).
  Every theorem quantifies over ALL store states / configurations (any `nextCleanup`,
  intervals incl. 0 and min > max, operation budget, modulus 0/1/N, any value of the
  table-pressure oracle stream), all keys, all `Int` values and TTLs, and all operation
  sequences with non-decreasing timestamps — no bound on length.
-/
import TcVerif.Lemmas.LimiterSim
namespace TcVerif
open Data

/-- **Refinement.** Any concrete store (any kind, any configuration and scheduling state) whose
    table currently shows the same visible entries as an abstract map answers every sequence of
    get / set-if-absent / compare-and-swap with non-decreasing timestamps exactly as the abstract
    map does. -/
theorem C06_refines_abstract_map (st : AnyStore) (a : AMap) (t0 : Int) (ops : List SOp)
    (hsim : SimStore t0 st a) (hmono : NonDecreasingFrom t0 (ops.map (·.now))) :
    runOps AnyStore.ops st ops = runOps AMap.ops a ops :=
  runOps_sim anyStore_sim_amap ops t0 st a hsim hmono

/-- a freshly built store of any kind / configuration is related to the empty abstract map -/
theorem simStore_fresh (st : AnyStore) (h : st.data = []) (t0 : Int) : SimStore t0 st AMap.empty := by
  unfold SimStore Sim
  rw [h]
  exact ⟨trivial, fun _ => rfl⟩

theorem C06_periodic_refines (nextCleanup interval : Int) (expired : Nat) (t0 : Int) (ops : List SOp)
    (hmono : NonDecreasingFrom t0 (ops.map (·.now))) :
    runOps AnyStore.ops (.periodic ⟨[], nextCleanup, interval, expired⟩) ops = runOps AMap.ops AMap.empty ops :=
  C06_refines_abstract_map _ _ t0 ops (simStore_fresh _ rfl t0) hmono

theorem C06_adaptive_refines (nextCleanup minI maxI curI : Int) (expired opsSince maxOps lastRem lastTot : Nat)
    (oracle : List Bool) (t0 : Int) (ops : List SOp)
    (hmono : NonDecreasingFrom t0 (ops.map (·.now))) :
    runOps AnyStore.ops (.adaptive ⟨[], nextCleanup, minI, maxI, curI, expired, opsSince, maxOps, lastRem, lastTot, oracle⟩) ops
      = runOps AMap.ops AMap.empty ops :=
  C06_refines_abstract_map _ _ t0 ops (simStore_fresh _ rfl t0) hmono

theorem C06_probabilistic_refines (opsCount modulus : Nat) (t0 : Int) (ops : List SOp)
    (hmono : NonDecreasingFrom t0 (ops.map (·.now))) :
    runOps AnyStore.ops (.prob ⟨[], opsCount, modulus⟩) ops = runOps AMap.ops AMap.empty ops :=
  C06_refines_abstract_map _ _ t0 ops (simStore_fresh _ rfl t0) hmono

/-! #### what the abstract map is -/

/-- a value is visible at `now` exactly while `now` is before its expiry instant -/
theorem C06_get_visible_iff (a : AMap) (k : Key) (now : Int) :
    AMap.ops.get a k now = (match a.data.find k with
      | some (v, exp) => if now < exp then some v else none
      | none => none) := by
  simp only [AMap.ops, Data.get]
  cases a.data.find k with
  | none => rfl
  | some p => obtain ⟨v, e⟩ := p; by_cases h : e > now <;> simp [h] <;> omega

/-- set-if-absent succeeds exactly when no value is visible -/
theorem C06_setnx_succeeds_iff (a : AMap) (k : Key) (v ttl now : Int) :
    (AMap.ops.setnx a k v ttl now).2 = (AMap.ops.get a k now).isNone := by
  simp only [AMap.ops]
  rw [setnx_eq, get_eq_live]
  cases live a.data now k <;> rfl

/-- compare-and-swap succeeds exactly when the visible value equals the expected one -/
theorem C06_cas_succeeds_iff (a : AMap) (k : Key) (old new ttl now : Int) :
    (AMap.ops.cas a k old new ttl now).2 = true ↔ AMap.ops.get a k now = some old := by
  simp only [AMap.ops]
  rw [cas_eq, get_eq_live]
  cases h : live a.data now k with
  | none => simp
  | some p =>
    obtain ⟨cur, e⟩ := p
    by_cases hc : cur = old <;> simp [hc]

/-- a successful write replaces value and expiry; a failed one changes nothing -/
theorem C06_write_effect (a : AMap) (k : Key) (old new ttl now : Int) :
    (AMap.ops.cas a k old new ttl now).2 = true →
      (AMap.ops.cas a k old new ttl now).1.data.find k = some (new, now + ttl) := by
  simp only [AMap.ops]
  rw [cas_eq]
  cases h : live a.data now k with
  | none => simp
  | some p =>
    obtain ⟨cur, e⟩ := p
    by_cases hc : cur = old
    · simp [hc, find_insert]
    · simp [hc]

theorem C06_failed_write_no_effect (a : AMap) (k : Key) (old new ttl now : Int) :
    (AMap.ops.cas a k old new ttl now).2 = false → (AMap.ops.cas a k old new ttl now).1 = a := by
  simp only [AMap.ops]
  rw [cas_eq]
  cases h : live a.data now k with
  | none => simp
  | some p =>
    obtain ⟨cur, e⟩ := p
    by_cases hc : cur = old <;> simp [hc]

/-- **Cleanup is invisible**: a sweep performed at `t` never removes an entry that is visible
    at any `now ≥ t` and never revives an expired one. -/
theorem C06_cleanup_invisible (d : Data) (t now : Int) (k : Key) (hd : NodupKeys d) (h : t ≤ now) :
    live (sweep d t) now k = live d now k :=
  live_sweep d t now k hd h

/-- **The limiter cannot tell the stores apart**: whichever store is plugged in (any kind, any
    configuration), the responses to any history with non-decreasing timestamps are those
    obtained with the abstract map — hence identical for any two stores. -/
theorem C06_limiter_store_independent (ei : Int → Int → Int) (st : AnyStore) (a : AMap) (t0 : Int)
    (rs : List Req) (hsim : SimStore t0 st a) (hmono : MonotoneFrom t0 rs) :
    runTagged AnyStore.ops ei st rs = runTagged AMap.ops ei a rs :=
  runTagged_sim anyStore_sim_amap ei rs t0 st a hsim hmono

theorem C06_any_two_stores_agree (ei : Int → Int → Int) (st₁ st₂ : AnyStore) (t0 : Int) (rs : List Req)
    (h₁ : st₁.data = []) (h₂ : st₂.data = []) (hmono : MonotoneFrom t0 rs) :
    runTagged AnyStore.ops ei st₁ rs = runTagged AnyStore.ops ei st₂ rs := by
  rw [C06_limiter_store_independent ei st₁ AMap.empty t0 rs (simStore_fresh _ h₁ t0) hmono,
      C06_limiter_store_independent ei st₂ AMap.empty t0 rs (simStore_fresh _ h₂ t0) hmono]

/-! #### non-vacuity: a concrete sequence that crosses a sweep, an expiry and a CAS -/

def exampleOps : List SOp :=
  [.setnx "a" 7 5 100, .setnx "b" 1 1 100, .get "a" 104, .cas "a" 7 9 50 104,
   .get "b" 104, .setnx "c" 3 0 105, .get "a" 105, .get "a" 154, .setnx "a" 1 1 154]

example : NonDecreasingFrom 100 (exampleOps.map (·.now)) := by decide

example : runOps AnyStore.ops (.prob ⟨[], 0, 1⟩) exampleOps =
    [.flag true, .flag true, .val (some 7), .flag true, .val none, .flag true, .val (some 9), .val none, .flag true] := by
  decide

end TcVerif
