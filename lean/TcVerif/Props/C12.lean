/-
  C12 — Transport fidelity: HTTP, gRPC and RESP report exactly what the library decided.

  Model: `Model/Wire.lean` (response conversion, HTTP / gRPC request and response mappings) and
  the RESP command layer of `Model/Resp.lean` (`plan`, `finish`).  The mapping TABLES are
  regenerated from the Rust sources on every run (`Gen/Consts.lean`) and tied here by
  `decide`-checked theorems stated with the documented layout, so a swapped field, a changed
  default or a different unit in the code breaks a proof obligation.
  JSON / protobuf / HTTP decoding themselves (serde, prost, axum, tonic) are trusted.
-/
import TcVerif.Model.Wire
namespace TcVerif
open Wire
open Resp (Value)

/-! ### what the code's mapping tables say (regenerated from source; struct-literal fields sorted by name,
    because their order is irrelevant in Rust - which source expression feeds which field is what matters;
    expressions in the translator's canonical spelling: the receiver a field is read from (`req.`, `result.`)
    and `.clone()` are dropped, `i64::from(x)` is written `x as i64`, a constant is replaced by its value and a
    local bound to `SystemTime::now()` by that call) -/

theorem C12_tie_types_response : Gen.TYPES_RESPONSE_MAP =
    [("allowed", "allowed"), ("limit", "limit"), ("remaining", "remaining"),
     ("reset_after", "reset_after.as_secs() as i64"), ("retry_after", "retry_after.as_secs() as i64")] := by decide

theorem C12_tie_grpc_response : Gen.GRPC_RESPONSE_MAP =
    [("allowed", "allowed"), ("limit", "limit as i32"), ("remaining", "remaining as i32"),
     ("reset_after", "reset_after as i32"), ("retry_after", "retry_after as i32")] := by decide

theorem C12_tie_grpc_request : Gen.GRPC_REQUEST_MAP =
    [("count_per_period", "count_per_period as i64"), ("key", "key"), ("max_burst", "max_burst as i64"),
     ("period", "period as i64"), ("quantity", "quantity as i64"), ("timestamp", "SystemTime::now()")] := by decide

theorem C12_tie_http_request : Gen.HTTP_REQUEST_MAP =
    [("count_per_period", "count_per_period"), ("key", "key"), ("max_burst", "max_burst"),
     ("period", "period"), ("quantity", "quantity.unwrap_or(1)"), ("timestamp", "SystemTime::now()")] := by decide

/-- documented gRPC field numbers: allowed=1, limit=2, remaining=3, retry_after=4, reset_after=5 -/
theorem C12_grpc_field_numbers :
    Gen.PROTO_RESPONSE = [("bool", "allowed", 1), ("int32", "limit", 2), ("int32", "remaining", 3),
                          ("int32", "retry_after", 4), ("int32", "reset_after", 5)] ∧
    Gen.PROTO_REQUEST = [("string", "key", 1), ("int32", "max_burst", 2), ("int32", "count_per_period", 3),
                         ("int32", "period", 4), ("int32", "quantity", 5)] := by decide

/-- RESP reply layout and argument positions as documented:
    `[allowed, limit, remaining, reset_after, retry_after]`, `THROTTLE key max_burst count period [quantity]` -/
theorem C12_tie_resp_layout :
    Gen.RESP_REPLY_FIELDS = ["allowed", "limit", "remaining", "reset_after", "retry_after"] ∧
    Gen.RESP_ARG_INDEX = [("key", 1), ("max_burst", 2), ("count_per_period", 3), ("period", 4), ("quantity", 5)] ∧
    Gen.RESP_DEFAULT_QUANTITY = 1 ∧ Gen.HTTP_DEFAULT_QUANTITY = 1 ∧
    Gen.RESP_THROTTLE_MIN_ARGS = 5 ∧ Gen.RESP_THROTTLE_MAX_ARGS = 6 ∧ Gen.RESP_THROTTLE_FULL_ARITY = 6 := by decide

/-! ### the mappings -/

/-- durations on the wire are the library's durations truncated to whole seconds -/
theorem C12_seconds_floor (a : Bool) (l r resetNs retryNs : Int) (h1 : 0 ≤ resetNs) (h2 : 0 ≤ retryNs) :
    ∃ w, toResponse (.ok a l r resetNs retryNs) = some w ∧ w.allowed = a ∧ w.limit = l ∧ w.remaining = r ∧
      w.resetS * 1000000000 ≤ resetNs ∧ resetNs < (w.resetS + 1) * 1000000000 ∧
      w.retryS * 1000000000 ≤ retryNs ∧ retryNs < (w.retryS + 1) * 1000000000 := by
  refine ⟨_, rfl, rfl, rfl, rfl, ?_⟩
  simp only [Wire.NS_PER_SEC]
  omega

/-- library errors never produce a success response on any transport -/
theorem C12_error_no_response (o : Outcome) (h : o.allowed = false ∧ ∀ a l r x y, o ≠ .ok a l r x y) :
    toResponse o = none := by
  cases o with
  | ok a l r x y => exact absurd rfl (h.2 a l r x y)
  | _ => rfl

/-- an omitted quantity means 1 on HTTP … -/
theorem C12_http_default_quantity (key : List UInt8) (b c p : Int) :
    (httpRequest key b c p none).qty = 1 ∧ ∀ q, (httpRequest key b c p (some q)).qty = q := by
  constructor
  · rfl
  · intro q; rfl

/-- … and on RESP (5-element THROTTLE), whichever argument encoding is used -/
theorem C12_resp_default_quantity (name : List UInt8) (key : List UInt8) (b c p : Int) :
    Resp.plan (.array [.bulk (some name), .bulk (some key), .int b, .int c, .int p]) (some b!"THROTTLE")
      = .send ⟨key, b, c, p, 1⟩ := by
  simp [Resp.plan, Resp.handleThrottle, Resp.argInt]

/-- RESP arguments: `:int` and bulk-decimal encodings denote the same request; any spelling of
    the command name that upper-cases to THROTTLE is accepted -/
theorem C12_resp_args (name key : List UInt8) (b c p q : Int) (sb sc sp sq : List UInt8)
    (hb : Resp.parseI64 sb = some b) (hc : Resp.parseI64 sc = some c) (hp : Resp.parseI64 sp = some p)
    (hq : Resp.parseI64 sq = some q) :
    Resp.plan (.array [.bulk (some name), .bulk (some key), .bulk (some sb), .bulk (some sc), .bulk (some sp), .bulk (some sq)])
        (some b!"THROTTLE") = .send ⟨key, b, c, p, q⟩ ∧
    Resp.plan (.array [.bulk (some name), .bulk (some key), .int b, .int c, .int p, .int q])
        (some b!"THROTTLE") = .send ⟨key, b, c, p, q⟩ := by
  constructor <;> simp [Resp.plan, Resp.handleThrottle, Resp.argInt, hb, hc, hp, hq]

/-- RESP reply layout: `[allowed?1:0, limit, remaining, reset_after, retry_after]` -/
theorem C12_resp_reply_layout (w : Wire.WResp) :
    Resp.finish (respAnswer w) =
      .array [.int (if w.allowed then 1 else 0), .int w.limit, .int w.remaining, .int w.resetS, .int w.retryS] := by
  simp [Resp.finish, respAnswer, Resp.boolInt]

/-- gRPC: every field that fits `int32` survives the `as i32` narrowing unchanged, in its own slot -/
theorem C12_grpc_roundtrip (w : Wire.WResp) (h1 : inI32 w.limit) (h2 : inI32 w.remaining)
    (h3 : inI32 w.retryS) (h4 : inI32 w.resetS) :
    grpcResponse w = ⟨w.allowed, w.limit, w.remaining, w.retryS, w.resetS⟩ := by
  have wrap : ∀ x, inI32 x → wrapI32 x = x := by
    intro x hx
    unfold inI32 at hx
    unfold wrapI32
    simp only
    split <;> omega
  simp [grpcResponse, wrap _ h1, wrap _ h2, wrap _ h3, wrap _ h4]

/-- the same logical request yields the same library request on all three transports -/
theorem C12_same_request (name key : List UInt8) (b c p q : Int) :
    httpRequest key b c p (some q) = grpcRequest key b c p q ∧
    respRequest (.array [.bulk (some name), .bulk (some key), .int b, .int c, .int p, .int q]) (some b!"THROTTLE")
      = some (grpcRequest key b c p q) := by
  constructor
  · rfl
  · simp [respRequest, Resp.plan, Resp.handleThrottle, Resp.argInt, grpcRequest]

/-- hence the same answer: the library's answer `w` is reported identically (HTTP verbatim, RESP in
    the documented array layout, gRPC verbatim whenever the values fit int32) -/
theorem C12_same_answer (w : Wire.WResp) :
    httpResponse w = w ∧
    Resp.finish (respAnswer w) = .array [.int (if w.allowed then 1 else 0), .int w.limit, .int w.remaining, .int w.resetS, .int w.retryS] :=
  ⟨rfl, C12_resp_reply_layout w⟩

/-- malformed RESP requests (wrong arity, non-numeric argument, non-string key) get a protocol error
    reply and NO request is sent to the limiter - so no key's budget can be consumed -/
theorem C12_malformed_no_send (args : List Resp.Value) (name : List UInt8)
    (h : args.length + 1 < 5 ∨ args.length + 1 > 6) :
    ∃ e, Resp.plan (.array (.bulk (some name) :: args)) (some b!"THROTTLE") = .reply (.error e) := by
  simp only [Resp.plan]
  have hne : ¬ ((b!"THROTTLE" : List UInt8) = b!"PING") := by decide
  simp only [hne, if_false, if_true, Resp.handleThrottle, List.length_cons]
  have : args.length + 1 < 5 ∨ args.length + 1 > 6 := h
  simp only [this, if_true]
  exact ⟨_, rfl⟩

theorem C12_nonnumeric_no_send (name key : List UInt8) (bad : List UInt8) (c p : Int)
    (hbad : Resp.parseI64 bad = none) :
    Resp.plan (.array [.bulk (some name), .bulk (some key), .bulk (some bad), .int c, .int p]) (some b!"THROTTLE")
      = .reply (.error (b!"ERR invalid max_burst")) := by
  simp [Resp.plan, Resp.handleThrottle, Resp.argInt, hbad]

/-! non-vacuity -/
example : toResponse (.ok true 10 9 5400000000 0) = some ⟨true, 10, 9, 5, 0⟩ := by decide
example : grpcResponse ⟨false, 2147483648, 3, 7, 9⟩ = ⟨false, -2147483648, 3, 9, 7⟩ := by decide

end TcVerif
