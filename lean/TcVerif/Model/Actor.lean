/-
  Model A — the single-actor request pipeline of `throttlecrab-server/src/actor.rs`
  as a labelled transition system.

  * Clients (one per connection / in-flight caller) run a program `prog c : List Rq`,
    one request after the other: the next request is issued only after the previous one
    returned, was cancelled (the caller's future was dropped) or failed.
  * `RateLimiterHandle::throttle`: `call` (the future is created, `tx.send(..)` pending),
    `enq` (the bounded mpsc channel accepted the message: only below `cap`, FIFO),
    then the client waits for the one-shot reply (`ret`).
  * `run_actor`: `proc` = dequeue the head + `handle_throttle` + `response_tx.send` — there
    is no `.await` between the three, so it is ONE transition.  A reply for an abandoned
    request is discarded (`let _ = response_tx.send(..)`).
  * `lim.step = none` stands for "the library call panics": `actorPanic` kills the actor;
    afterwards nothing is enqueued or processed and pending callers `fail`
    ("Rate limiter actor has shut down" / "dropped response channel").  A reply that was
    already in its one-shot slot is still delivered (`ret`), as with tokio's oneshot.
    The queue content is inert once the actor is dead (it is left in place).
  * GHOST state: `log`, the list of events in the order they happened (new events are
    appended, so the position of an event is its list index and never changes).

  `Step` is the transition relation, `step?` the executable version (`step?_iff`), used by
  the trace validator in `ActorDriver.lean`.  No imports: the driver links this file.
-/
namespace TcVerif.Actor

/-- the limiter the actor owns; `none` = the library call panics -/
structure Limiter (L Rq Rs : Type) where
  step : L → Rq → Option (L × Rs)

/-- request id = (client, index in the client's program) -/
abbrev Id := Nat × Nat

inductive Status where
  | idle | sending | waiting
deriving DecidableEq, Repr, Inhabited

/-- mutable part of a client: index of the current / next request, and where it stands -/
structure Cl where
  pc : Nat
  st : Status
deriving DecidableEq, Repr, Inhabited

inductive Event (Rq Rs : Type) where
  | call (id : Id) (r : Rq)
  | enq (id : Id) (r : Rq)
  | proc (id : Id) (r : Rq) (rs : Rs)
  | panic (id : Id) (r : Rq)
  | ret (id : Id) (rs : Rs)
  /-- the caller's future was dropped before the message entered the queue -/
  | cancelSend (id : Id)
  /-- the caller's future was dropped after the message entered the queue -/
  | cancelWait (id : Id)
  | fail (id : Id)
deriving DecidableEq, Repr

inductive Label where
  | call (c : Nat)
  | enq (c : Nat)
  | proc
  | actorPanic
  | ret (c : Nat)
  | cancel (c : Nat)
  | fail (c : Nat)
deriving DecidableEq, Repr

/-- static part of the system -/
structure Sys (L Rq Rs : Type) where
  lim : Limiter L Rq Rs
  /-- `buffer_size` of the mpsc channel -/
  cap : Nat
  /-- the requests client `c` will issue, in order -/
  prog : Nat → List Rq

structure State (L Rq Rs : Type) where
  clients : List Cl
  /-- the mpsc channel: oldest message first -/
  queue : List (Id × Rq)
  lim : L
  /-- one-shot slots holding a reply that was produced and not yet taken -/
  replies : List (Id × Rs)
  /-- one-shot slots whose receiver was dropped after the message was enqueued -/
  abandoned : List Id
  alive : Bool
  /-- ghost: history -/
  log : List (Event Rq Rs)
deriving DecidableEq, Repr

variable {L Rq Rs : Type}

def findReply (id : Id) : List (Id × Rs) → Option Rs
  | [] => none
  | p :: rest => if p.1 = id then some p.2 else findReply id rest

def dropReply (id : Id) : List (Id × Rs) → List (Id × Rs)
  | [] => []
  | p :: rest => if p.1 = id then dropReply id rest else p :: dropReply id rest

/-- `n` clients, nothing issued yet -/
def init (n : Nat) (l0 : L) : State L Rq Rs :=
  { clients := List.replicate n ⟨0, .idle⟩, queue := [], lim := l0, replies := [],
    abandoned := [], alive := true, log := [] }

def setCl (s : State L Rq Rs) (c : Nat) (cl : Cl) : State L Rq Rs :=
  { s with clients := s.clients.set c cl }

def addLog (s : State L Rq Rs) (e : Event Rq Rs) : State L Rq Rs :=
  { s with log := s.log ++ [e] }

/-- the transition relation -/
inductive Step (M : Sys L Rq Rs) : State L Rq Rs → Label → State L Rq Rs → Prop where
  | call {s : State L Rq Rs} {c pc : Nat} {r : Rq}
      (hc : s.clients[c]? = some ⟨pc, .idle⟩) (hr : (M.prog c)[pc]? = some r) :
      Step M s (.call c)
        { s with clients := s.clients.set c ⟨pc, .sending⟩, log := s.log ++ [.call (c, pc) r] }
  | enq {s : State L Rq Rs} {c pc : Nat} {r : Rq}
      (hc : s.clients[c]? = some ⟨pc, .sending⟩) (hr : (M.prog c)[pc]? = some r)
      (hcap : s.queue.length < M.cap) (ha : s.alive = true) :
      Step M s (.enq c)
        { s with clients := s.clients.set c ⟨pc, .waiting⟩, queue := s.queue ++ [((c, pc), r)],
                 log := s.log ++ [.enq (c, pc) r] }
  | proc {s : State L Rq Rs} {id : Id} {r : Rq} {q : List (Id × Rq)} {l' : L} {rs : Rs}
      (ha : s.alive = true) (hq : s.queue = (id, r) :: q) (hs : M.lim.step s.lim r = some (l', rs)) :
      Step M s .proc
        { s with queue := q, lim := l',
                 replies := if id ∈ s.abandoned then s.replies else s.replies ++ [(id, rs)],
                 log := s.log ++ [.proc id r rs] }
  | actorPanic {s : State L Rq Rs} {id : Id} {r : Rq} {q : List (Id × Rq)}
      (ha : s.alive = true) (hq : s.queue = (id, r) :: q) (hs : M.lim.step s.lim r = none) :
      Step M s .actorPanic { s with alive := false, log := s.log ++ [.panic id r] }
  | ret {s : State L Rq Rs} {c pc : Nat} {rs : Rs}
      (hc : s.clients[c]? = some ⟨pc, .waiting⟩) (hf : findReply (c, pc) s.replies = some rs) :
      Step M s (.ret c)
        { s with clients := s.clients.set c ⟨pc + 1, .idle⟩, replies := dropReply (c, pc) s.replies,
                 log := s.log ++ [.ret (c, pc) rs] }
  | cancelSend {s : State L Rq Rs} {c pc : Nat}
      (hc : s.clients[c]? = some ⟨pc, .sending⟩) :
      Step M s (.cancel c)
        { s with clients := s.clients.set c ⟨pc + 1, .idle⟩, log := s.log ++ [.cancelSend (c, pc)] }
  | cancelWait {s : State L Rq Rs} {c pc : Nat}
      (hc : s.clients[c]? = some ⟨pc, .waiting⟩) :
      Step M s (.cancel c)
        { s with clients := s.clients.set c ⟨pc + 1, .idle⟩, replies := dropReply (c, pc) s.replies,
                 abandoned := (c, pc) :: s.abandoned, log := s.log ++ [.cancelWait (c, pc)] }
  | failSend {s : State L Rq Rs} {c pc : Nat}
      (hc : s.clients[c]? = some ⟨pc, .sending⟩) (ha : s.alive = false) :
      Step M s (.fail c)
        { s with clients := s.clients.set c ⟨pc + 1, .idle⟩, log := s.log ++ [.fail (c, pc)] }
  | failWait {s : State L Rq Rs} {c pc : Nat}
      (hc : s.clients[c]? = some ⟨pc, .waiting⟩) (ha : s.alive = false)
      (hf : findReply (c, pc) s.replies = none) :
      Step M s (.fail c)
        { s with clients := s.clients.set c ⟨pc + 1, .idle⟩, log := s.log ++ [.fail (c, pc)] }

/-- the executable transition function -/
def step? (M : Sys L Rq Rs) (s : State L Rq Rs) : Label → Option (State L Rq Rs)
  | .call c =>
    match s.clients[c]? with
    | some ⟨pc, .idle⟩ =>
      match (M.prog c)[pc]? with
      | some r =>
        some { s with clients := s.clients.set c ⟨pc, .sending⟩, log := s.log ++ [.call (c, pc) r] }
      | none => none
    | _ => none
  | .enq c =>
    match s.clients[c]? with
    | some ⟨pc, .sending⟩ =>
      match (M.prog c)[pc]? with
      | some r =>
        if s.queue.length < M.cap ∧ s.alive = true then
          some { s with clients := s.clients.set c ⟨pc, .waiting⟩, queue := s.queue ++ [((c, pc), r)],
                        log := s.log ++ [.enq (c, pc) r] }
        else none
      | none => none
    | _ => none
  | .proc =>
    if s.alive = true then
      match s.queue with
      | (id, r) :: q =>
        match M.lim.step s.lim r with
        | some (l', rs) =>
          some { s with queue := q, lim := l',
                        replies := if id ∈ s.abandoned then s.replies else s.replies ++ [(id, rs)],
                        log := s.log ++ [.proc id r rs] }
        | none => none
      | [] => none
    else none
  | .actorPanic =>
    if s.alive = true then
      match s.queue with
      | (id, r) :: _ =>
        match M.lim.step s.lim r with
        | some _ => none
        | none => some { s with alive := false, log := s.log ++ [.panic id r] }
      | [] => none
    else none
  | .ret c =>
    match s.clients[c]? with
    | some ⟨pc, .waiting⟩ =>
      match findReply (c, pc) s.replies with
      | some rs =>
        some { s with clients := s.clients.set c ⟨pc + 1, .idle⟩, replies := dropReply (c, pc) s.replies,
                      log := s.log ++ [.ret (c, pc) rs] }
      | none => none
    | _ => none
  | .cancel c =>
    match s.clients[c]? with
    | some ⟨pc, .sending⟩ =>
      some { s with clients := s.clients.set c ⟨pc + 1, .idle⟩, log := s.log ++ [.cancelSend (c, pc)] }
    | some ⟨pc, .waiting⟩ =>
      some { s with clients := s.clients.set c ⟨pc + 1, .idle⟩, replies := dropReply (c, pc) s.replies,
                    abandoned := (c, pc) :: s.abandoned, log := s.log ++ [.cancelWait (c, pc)] }
    | _ => none
  | .fail c =>
    if s.alive = false then
      match s.clients[c]? with
      | some ⟨pc, .sending⟩ =>
        some { s with clients := s.clients.set c ⟨pc + 1, .idle⟩, log := s.log ++ [.fail (c, pc)] }
      | some ⟨pc, .waiting⟩ =>
        match findReply (c, pc) s.replies with
        | none =>
          some { s with clients := s.clients.set c ⟨pc + 1, .idle⟩, log := s.log ++ [.fail (c, pc)] }
        | some _ => none
      | _ => none
    else none

theorem step?_of_Step {M : Sys L Rq Rs} {s s' : State L Rq Rs} {lb : Label} (h : Step M s lb s') :
    step? M s lb = some s' := by
  cases h <;> simp_all [step?]

theorem Step_of_step? {M : Sys L Rq Rs} {s s' : State L Rq Rs} {lb : Label}
    (h : step? M s lb = some s') : Step M s lb s' := by
  cases lb with
  | call c =>
    simp only [step?] at h
    repeat' split at h
    all_goals first | cases h | skip
    all_goals (refine .call ?_ ?_ <;> assumption)
  | enq c =>
    simp only [step?] at h
    repeat' split at h
    all_goals first | cases h | skip
    all_goals (rename_i hh; refine .enq ?_ ?_ hh.1 hh.2 <;> assumption)
  | proc =>
    simp only [step?] at h
    split at h
    · split at h
      · split at h
        · cases h; refine .proc ?_ ?_ ?_ <;> assumption
        · cases h
      · cases h
    · cases h
  | actorPanic =>
    simp only [step?] at h
    repeat' split at h
    all_goals first | cases h | skip
    all_goals (rename_i hq _ hs; exact .actorPanic (by assumption) hq hs)
  | ret c =>
    simp only [step?] at h
    repeat' split at h
    all_goals first | cases h | skip
    all_goals (refine .ret ?_ ?_ <;> assumption)
  | cancel c =>
    simp only [step?] at h
    split at h
    · cases h; refine .cancelSend ?_; assumption
    · cases h; refine .cancelWait ?_; assumption
    · cases h
  | fail c =>
    simp only [step?] at h
    split at h
    · split at h
      · cases h; refine .failSend ?_ ?_ <;> assumption
      · split at h
        · cases h; refine .failWait ?_ ?_ ?_ <;> assumption
        · cases h
      · cases h
    · cases h

/-- the relation and the executable function are the same thing -/
theorem step?_iff {M : Sys L Rq Rs} {s s' : State L Rq Rs} {lb : Label} :
    step? M s lb = some s' ↔ Step M s lb s' :=
  ⟨Step_of_step?, step?_of_Step⟩

/-- a finite run along a list of labels -/
inductive Run (M : Sys L Rq Rs) : State L Rq Rs → List Label → State L Rq Rs → Prop where
  | nil (s : State L Rq Rs) : Run M s [] s
  | cons {s s1 s2 : State L Rq Rs} {lb : Label} {lbs : List Label} :
      Step M s lb s1 → Run M s1 lbs s2 → Run M s (lb :: lbs) s2

def run? (M : Sys L Rq Rs) : State L Rq Rs → List Label → Option (State L Rq Rs)
  | s, [] => some s
  | s, lb :: lbs =>
    match step? M s lb with
    | some s1 => run? M s1 lbs
    | none => none

theorem run?_iff {M : Sys L Rq Rs} {s s' : State L Rq Rs} {lbs : List Label} :
    run? M s lbs = some s' ↔ Run M s lbs s' := by
  induction lbs generalizing s with
  | nil =>
    simp only [run?]
    constructor
    · intro h; cases h; exact .nil _
    · intro h; cases h; rfl
  | cons lb lbs ih =>
    simp only [run?]
    constructor
    · intro h
      split at h
      · rename_i s1 h1
        exact .cons (step?_iff.mp h1) (ih.mp h)
      · cases h
    · intro h
      cases h with
      | cons h1 h2 =>
        rw [step?_iff.mpr h1]
        exact ih.mpr h2

/-- reachable from the initial state with `n` clients and limiter state `l0` -/
inductive Reach (M : Sys L Rq Rs) (n : Nat) (l0 : L) : State L Rq Rs → Prop where
  | init : Reach M n l0 (init n l0)
  | step {s s' : State L Rq Rs} {lb : Label} : Reach M n l0 s → Step M s lb s' → Reach M n l0 s'

theorem Reach.run {M : Sys L Rq Rs} {n : Nat} {l0 : L} {s s' : State L Rq Rs} {lbs : List Label}
    (h : Reach M n l0 s) (hr : Run M s lbs s') : Reach M n l0 s' := by
  induction hr with
  | nil => exact h
  | cons h1 _ ih => exact ih (.step h h1)

theorem Run.snoc {M : Sys L Rq Rs} {s s1 s2 : State L Rq Rs} {lbs : List Label} {lb : Label}
    (hr : Run M s lbs s1) (hst : Step M s1 lb s2) : Run M s (lbs ++ [lb]) s2 := by
  induction hr with
  | nil => exact .cons hst (.nil _)
  | cons h1 _ ih => exact .cons h1 (ih hst)

/-- reachable = end point of a finite run from the initial state -/
theorem reach_iff_run {M : Sys L Rq Rs} {n : Nat} {l0 : L} {s : State L Rq Rs} :
    Reach M n l0 s ↔ ∃ lbs, Run M (init n l0) lbs s := by
  constructor
  · intro h
    induction h with
    | init => exact ⟨[], .nil _⟩
    | step _ hst ih =>
      obtain ⟨lbs, hr⟩ := ih
      exact ⟨lbs ++ [_], hr.snoc hst⟩
  · rintro ⟨lbs, hr⟩
    exact Reach.run .init hr

/-! ### projections of the event log -/

/-- the `proc` log: the witness linearization -/
def procLog : List (Event Rq Rs) → List (Id × Rq × Rs)
  | [] => []
  | .proc id r rs :: rest => (id, r, rs) :: procLog rest
  | _ :: rest => procLog rest

/-- the `enq` log -/
def enqLog : List (Event Rq Rs) → List (Id × Rq)
  | [] => []
  | .enq id r :: rest => (id, r) :: enqLog rest
  | _ :: rest => enqLog rest

/-- sequential execution of a list of requests on one limiter -/
def seqRun (lim : Limiter L Rq Rs) : L → List Rq → Option (L × List Rs)
  | l, [] => some (l, [])
  | l, r :: rest =>
    match lim.step l r with
    | none => none
    | some (l', o) =>
      match seqRun lim l' rest with
      | none => none
      | some (lf, os) => some (lf, o :: os)

end TcVerif.Actor
