/-
  Model of the hand-written RESP parser / serializer / connection loop
  (throttlecrab-server/src/transport/redis/resp.rs and redis/mod.rs).

  Bytes are `List UInt8`.  Rust `String`s are byte lists together with the executable
  predicate `validUtf8` (= acceptance by `str::from_utf8`).  All functions are total and
  structurally recursive; the recursion depth of the Rust parser (`RespParser.depth`) is
  modelled by `fuel = MAX_ARRAY_DEPTH - depth`.

  Core only (plus the generated constants) so that the driver executable links.
-/
import TcVerif.Gen.Consts

namespace TcVerif.Resp

open TcVerif.Gen

/- `b!"text"` is the explicit list literal of the UTF-8 bytes of `text`
   (expanded at elaboration time, so the kernel sees `[80, 73, ...]`). -/
open Lean in
macro:max "b!" s:str : term => do
  let bytes := s.getString.toUTF8.toList
  let elems ← bytes.toArray.mapM fun b => `(($(quote b.toNat) : UInt8))
  `(([$elems,*] : List UInt8))

abbrev Bytes := List UInt8

/-! ## Values -/

inductive Value
  | simple (s : List UInt8)
  | error (s : List UInt8)
  | int (n : Int)
  | bulk (s : Option (List UInt8))
  | array (xs : List Value)
  deriving Repr, Inhabited

inductive DecodeResult
  | ok (v : Value) (consumed : Nat)
  | incomplete
  | error
  deriving Repr, Inhabited

/-- result of decoding `cnt` consecutive elements -/
inductive ElemsResult
  | ok (vs : List Value) (consumed : Nat)
  | incomplete
  | error
  deriving Repr, Inhabited

/-! ## UTF-8 validity (`str::from_utf8`), Unicode table 3-7 -/

/-- continuation byte `80..BF` -/
def isCont (b : UInt8) : Bool := 0x80 ≤ b && b ≤ 0xBF

def validUtf8 : List UInt8 → Bool
  | [] => true
  | b0 :: r0 =>
    if b0 < 0x80 then validUtf8 r0
    else if 0xC2 ≤ b0 && b0 ≤ 0xDF then
      match r0 with
      | b1 :: r1 => isCont b1 && validUtf8 r1
      | [] => false
    else if 0xE0 ≤ b0 && b0 ≤ 0xEF then
      match r0 with
      | b1 :: b2 :: r2 =>
        (if b0 = 0xE0 then 0xA0 ≤ b1 && b1 ≤ 0xBF
         else if b0 = 0xED then 0x80 ≤ b1 && b1 ≤ 0x9F
         else isCont b1) && isCont b2 && validUtf8 r2
      | _ => false
    else if 0xF0 ≤ b0 && b0 ≤ 0xF4 then
      match r0 with
      | b1 :: b2 :: b3 :: r3 =>
        (if b0 = 0xF0 then 0x90 ≤ b1 && b1 ≤ 0xBF
         else if b0 = 0xF4 then 0x80 ≤ b1 && b1 ≤ 0x8F
         else isCont b1) && isCont b2 && isCont b3 && validUtf8 r3
      | _ => false
    else false

/-! ## Integers: Rust `str::parse::<i64>()` and `i64::to_string()` -/

def I64_MAX_NAT : Nat := 9223372036854775807   -- 2^63 - 1

def isDigit (c : UInt8) : Bool := 48 ≤ c && c ≤ 57

/-- value of a digit string (accumulator version); `none` on a non-digit -/
def digitsVal : List UInt8 → Nat → Option Nat
  | [], acc => some acc
  | c :: cs, acc => if isDigit c then digitsVal cs (acc * 10 + (c.toNat - 48)) else none

/-- at least one digit, digits only -/
def parseDigits (l : List UInt8) : Option Nat :=
  match l with
  | [] => none
  | _ :: _ => digitsVal l 0

/-- Rust `i64::from_str` on raw bytes: optional single `+`/`-`, then ≥ 1 ASCII digit;
    overflow → `none`.  (Checked arithmetic overflows at some step iff the final magnitude is
    out of range, since the running magnitude never decreases.) -/
def parseI64 : List UInt8 → Option Int
  | [] => none
  | c :: cs =>
    if c = 45 then
      match parseDigits cs with
      | some n => if n ≤ I64_MAX_NAT + 1 then some (-(n : Int)) else none
      | none => none
    else if c = 43 then
      match parseDigits cs with
      | some n => if n ≤ I64_MAX_NAT then some (n : Int) else none
      | none => none
    else
      match parseDigits (c :: cs) with
      | some n => if n ≤ I64_MAX_NAT then some (n : Int) else none
      | none => none

/-- `str::from_utf8(line)?.parse::<i64>()?` -/
def parseHdrInt (l : List UInt8) : Option Int :=
  if validUtf8 l then parseI64 l else none

def digitByte (k : Nat) : UInt8 := UInt8.ofNat (48 + k % 10)

/-- decimal digits of `n`, most significant first (`fuel > n` always suffices) -/
def natDigitsAux : Nat → Nat → List UInt8 → List UInt8
  | 0, _, acc => acc
  | f + 1, n, acc =>
    if n < 10 then digitByte n :: acc
    else natDigitsAux f (n / 10) (digitByte n :: acc)

def renderNat (n : Nat) : List UInt8 := natDigitsAux (n + 1) n []

def renderInt (n : Int) : List UInt8 :=
  if n < 0 then 45 :: renderNat n.natAbs else renderNat n.toNat

/-! ## Lines -/

/-- index of the first CR LF pair -/
def findCRLF : List UInt8 → Option Nat
  | [] => none
  | a :: tl =>
    match tl with
    | [] => none
    | b :: _ =>
      if a = 13 ∧ b = 10 then some 0
      else match findCRLF tl with
        | some i => some (i + 1)
        | none => none

/-- `read_line`: (line without CRLF, bytes consumed including CRLF) -/
def readLine (d : List UInt8) : Option (List UInt8 × Nat) :=
  match findCRLF d with
  | some i => some (d.take i, i + 2)
  | none => none

/-! ## Decoder -/

/-- `+` / `-` frames: `line[1..]` must be valid UTF-8 -/
def decodeLine (mk : List UInt8 → Value) (d : List UInt8) : DecodeResult :=
  match readLine d with
  | none => .incomplete
  | some (line, n) =>
    if validUtf8 (line.drop 1) then .ok (mk (line.drop 1)) n else .error

/-- `:` frames -/
def decodeInt (d : List UInt8) : DecodeResult :=
  match readLine d with
  | none => .incomplete
  | some (line, n) =>
    match parseHdrInt (line.drop 1) with
    | some k => .ok (.int k) n
    | none => .error

/-- outcome of reading a `$len` / `*count` header line -/
inductive Hdr
  | incomplete
  | error
  | null (consumed : Nat)
  | len (consumed : Nat) (k : Nat)
  deriving Repr

/-- header line of `$` / `*` frames: `-1` is the null marker, otherwise `0 ..= maxv` -/
def header (maxv : Nat) (d : List UInt8) : Hdr :=
  match readLine d with
  | none => .incomplete
  | some (line, n) =>
    match parseHdrInt (line.drop 1) with
    | none => .error
    | some k =>
      if k = -1 then .null n
      else if k < 0 ∨ k > (maxv : Int) then .error
      else .len n k.toNat

/-- `$` frames.  The two bytes after the payload are skipped without being checked. -/
def decodeBulk (d : List UInt8) : DecodeResult :=
  match header RESP_MAX_BULK d with
  | .incomplete => .incomplete
  | .error => .error
  | .null n => .ok (.bulk none) n
  | .len n l =>
    if d.length < n + l + 2 then .incomplete
    else
      let s := (d.drop n).take l
      if validUtf8 s then .ok (.bulk (some s)) (n + l + 2) else .error

/-- the `for _ in 0..count` loop of `parse_array`, over an arbitrary element decoder -/
def decodeElemsWith (dec : List UInt8 → DecodeResult) : Nat → List UInt8 → ElemsResult
  | 0, _ => .ok [] 0
  | c + 1, d =>
    match dec d with
    | .ok v m =>
      match decodeElemsWith dec c (d.drop m) with
      | .ok vs k => .ok (v :: vs) (m + k)
      | .incomplete => .incomplete
      | .error => .error
    | .incomplete => .incomplete
    | .error => .error

/-- `RespParser::parse` with `fuel = MAX_ARRAY_DEPTH - self.depth`.
    Structural recursion on `fuel`; the element loop is `decodeElemsWith (decode f)`. -/
def decode : Nat → List UInt8 → DecodeResult
  | fuel, d =>
    match d with
    | [] => .incomplete
    | t :: _ =>
      if t = 43 then decodeLine .simple d
      else if t = 45 then decodeLine .error d
      else if t = 58 then decodeInt d
      else if t = 36 then decodeBulk d
      else if t = 42 then
        match fuel with
        | 0 => .error            -- depth ≥ MAX_ARRAY_DEPTH, checked before the header
        | f + 1 =>
          match header RESP_MAX_ARRAY d with
          | .incomplete => .incomplete
          | .error => .error
          | .null n => .ok (.array []) n
          | .len n cnt =>
            match decodeElemsWith (decode f) cnt (d.drop n) with
            | .ok vs m => .ok (.array vs) (n + m)
            | .incomplete => .incomplete
            | .error => .error
      else .error

/-- elements of an array whose own frame was entered with `fuel + 1` -/
def decodeElems (fuel cnt : Nat) (d : List UInt8) : ElemsResult :=
  decodeElemsWith (decode fuel) cnt d

/-- top-level call (`depth = 0`) -/
def parse (d : List UInt8) : DecodeResult := decode RESP_MAX_DEPTH d

/-! ## The same parser with Rust's explicit `self.depth` counter

`decodeD gas depth d` returns the result together with the value of `self.depth` afterwards,
following `parse_array` literally: check `depth ≥ MAX_ARRAY_DEPTH` before reading the header,
`depth += 1` before the elements, `depth -= 1` when an element is incomplete and after success,
NO decrement when an element fails.  `gas` only makes the recursion structural
(`gas ≥ MAX_ARRAY_DEPTH - depth` always suffices).  `C13_depth_restored` shows that it agrees
with `decode (MAX_ARRAY_DEPTH - depth)` and leaves `depth` unchanged unless it returns an error. -/

def elemsD (dec : Nat → List UInt8 → DecodeResult × Nat) :
    Nat → Nat → List UInt8 → ElemsResult × Nat
  | 0, depth, _ => (.ok [] 0, depth)
  | c + 1, depth, d =>
    match dec depth d with
    | (.ok v m, dp) =>
      match elemsD dec c dp (d.drop m) with
      | (.ok vs k, dp2) => (.ok (v :: vs) (m + k), dp2)
      | (.incomplete, dp2) => (.incomplete, dp2)
      | (.error, dp2) => (.error, dp2)
    | (.incomplete, dp) => (.incomplete, dp)
    | (.error, dp) => (.error, dp)

def decodeD : Nat → Nat → List UInt8 → DecodeResult × Nat
  | gas, depth, d =>
    match d with
    | [] => (.incomplete, depth)
    | t :: _ =>
      if t = 43 then (decodeLine .simple d, depth)
      else if t = 45 then (decodeLine .error d, depth)
      else if t = 58 then (decodeInt d, depth)
      else if t = 36 then (decodeBulk d, depth)
      else if t = 42 then
        if depth ≥ RESP_MAX_DEPTH then (.error, depth)
        else
          match header RESP_MAX_ARRAY d with
          | .incomplete => (.incomplete, depth)
          | .error => (.error, depth)
          | .null n => (.ok (.array []) n, depth)
          | .len n cnt =>
            match gas with
            | 0 => (.error, depth)     -- out of gas; unreachable when gas ≥ MAX_DEPTH - depth
            | g + 1 =>
              match elemsD (decodeD g) cnt (depth + 1) (d.drop n) with
              | (.ok vs m, dp) => (.ok (.array vs) (n + m), dp - 1)
              | (.incomplete, dp) => (.incomplete, dp - 1)
              | (.error, dp) => (.error, dp)
      else (.error, depth)

/-! ## Encoder -/

def crlf : List UInt8 := [13, 10]

mutual
def encode : Value → List UInt8
  | .simple s => 43 :: (s ++ crlf)
  | .error s => 45 :: (s ++ crlf)
  | .int n => 58 :: (renderInt n ++ crlf)
  | .bulk none => b!"$-1\r\n"
  | .bulk (some s) => 36 :: (renderNat s.length ++ crlf ++ (s ++ crlf))
  | .array xs => 42 :: (renderNat xs.length ++ crlf ++ encodeList xs)
def encodeList : List Value → List UInt8
  | [] => []
  | v :: vs => encode v ++ encodeList vs
end

/-! ## Well-formedness -/

def inI64 (n : Int) : Bool := decide (-(I64_MAX_NAT : Int) - 1 ≤ n) && decide (n ≤ (I64_MAX_NAT : Int))

def noCRLF (s : List UInt8) : Bool := (findCRLF s).isNone

mutual
def depth : Value → Nat
  | .array xs => 1 + depthList xs
  | _ => 0
def depthList : List Value → Nat
  | [] => 0
  | v :: vs => max (depth v) (depthList vs)
end

mutual
/-- size limits, UTF-8 validity, no CRLF in line payloads, ints in `i64` (no depth bound) -/
def sizesOk : Value → Bool
  | .simple s => validUtf8 s && noCRLF s
  | .error s => validUtf8 s && noCRLF s
  | .int n => inI64 n
  | .bulk none => true
  | .bulk (some s) => validUtf8 s && decide (s.length ≤ RESP_MAX_BULK)
  | .array xs => decide (xs.length ≤ RESP_MAX_ARRAY) && sizesOkList xs
def sizesOkList : List Value → Bool
  | [] => true
  | v :: vs => sizesOk v && sizesOkList vs
end

def wf (v : Value) : Bool := sizesOk v && decide (depth v ≤ RESP_MAX_DEPTH)

/-- values that survive `encode` then `parse` -/
def WF (v : Value) : Prop := wf v = true

instance (v : Value) : Decidable (WF v) := by unfold WF; exact inferInstance

/-! ## Command layer (`process_command`, `handle_ping`, `handle_throttle`, `parse_integer`) -/

structure ThrottleReq where
  key : List UInt8
  burst : Int
  count : Int
  period : Int
  qty : Int
  deriving Repr

inductive ActorAnswer
  | ok (allowed : Bool) (limit remaining resetS retryS : Int)
  | err (msg : List UInt8)
  deriving Repr

inductive CmdPlan
  | reply (v : Value)
  | send (r : ThrottleReq)
  deriving Repr

/-- repaired code: CR and LF of the echoed command name become spaces -/
def sanitize (s : List UInt8) : List UInt8 :=
  s.map fun c => if c = 13 ∨ c = 10 then 32 else c

/-- `parse_integer` of redis/mod.rs -/
def argInt : Value → Option Int
  | .bulk (some s) => parseI64 s        -- `s.parse::<i64>().ok()`
  | .int n => some n
  | _ => none

def handlePing (args : List Value) : Value :=
  match args with
  | [_] => .simple b!"PONG"
  | [_, x] => x
  | _ => .error b!"ERR wrong number of arguments for 'ping' command"

def handleThrottle (args : List Value) : CmdPlan :=
  if args.length < 5 ∨ args.length > 6 then
    .reply (.error b!"ERR wrong number of arguments for 'throttle' command")
  else
    match args with
    | _ :: k :: a2 :: a3 :: a4 :: rest =>
      match k with
      | .bulk (some key) =>
        match argInt a2 with
        | none => .reply (.error b!"ERR invalid max_burst")
        | some burst =>
          match argInt a3 with
          | none => .reply (.error b!"ERR invalid count_per_period")
          | some count =>
            match argInt a4 with
            | none => .reply (.error b!"ERR invalid period")
            | some period =>
              match rest with
              | [] => .send ⟨key, burst, count, period, 1⟩
              | a5 :: _ =>
                match argInt a5 with
                | none => .reply (.error b!"ERR invalid quantity")
                | some qty => .send ⟨key, burst, count, period, qty⟩
      | _ => .reply (.error b!"ERR invalid key")
    | _ => .reply (.error b!"ERR wrong number of arguments for 'throttle' command")

/-- `process_command` up to the point where the limiter is asked.
    `upper` = Rust's `cmd.to_uppercase()` (oracle input, only used when the first element is a
    non-null bulk string; `none` there is treated like a non-string command name). -/
def plan (v : Value) (upper : Option (List UInt8)) : CmdPlan :=
  match v with
  | .array [] => .reply (.error b!"ERR empty command")
  | .array (first :: rest) =>
    match first, upper with
    | .bulk (some _), some up =>
      if up = b!"PING" then .reply (handlePing (first :: rest))
      else if up = b!"THROTTLE" then handleThrottle (first :: rest)
      else if up = b!"QUIT" then .reply (.simple b!"OK")
      else .reply (.error (b!"ERR unknown command '" ++ sanitize up ++ b!"'"))
    | _, _ => .reply (.error b!"ERR invalid command format")
  | _ => .reply (.error b!"ERR expected array of commands")

def boolInt (b : Bool) : Int := if b then 1 else 0

/-- reply built from the limiter's answer -/
def finish (a : ActorAnswer) : Value :=
  match a with
  | .ok allowed limit remaining resetS retryS =>
    .array [.int (boolInt allowed), .int limit, .int remaining, .int resetS, .int retryS]
  | .err msg => .error (b!"ERR " ++ msg)

def isQuit (v : Value) (upper : Option (List UInt8)) : Bool :=
  match v, upper with
  | .array (.bulk (some _) :: _), some up => up = b!"QUIT"
  | _, _ => false

/-- metrics classification of the repaired code: (allowed?, key for denied-key tracking) -/
def metricOutcome (v : Value) (upper : Option (List UInt8)) (a : Option ActorAnswer) :
    Bool × Option (List UInt8) :=
  let allowed :=
    match plan v upper, a with
    | .send _, some (.ok false _ _ _ _) => false
    | _, _ => true
  let key :=
    match v, upper with
    | .array (.bulk (some _) :: .bulk (some k) :: _), some up =>
      if up = b!"THROTTLE" then some k else none
    | _, _ => none
  (allowed, key)

/-- does `process_command` reach the point where it records the command in the metrics?
    Its three early returns (value not an array / empty array / first element not a non-null
    bulk string) reply with a fixed error and record NOTHING. -/
def counted (v : Value) (upper : Option (List UInt8)) : Bool :=
  match v with
  | .array (.bulk (some _) :: _) => upper.isSome
  | _ => false

/-! ## Connection loop (`handle_connection`)

The limiter is a state machine `actor : σ → ThrottleReq → ActorAnswer × σ` (the real one is
stateful: its answers depend on the requests seen before).  `connRun` with a stateless
`ThrottleReq → ActorAnswer` is the `σ = Unit` instance. -/

inductive ConnEnd
  | «open» (buffer : List UInt8)   -- no more chunks supplied; connection still open
  | eof
  | quit
  | protocolError
  | overflow
  deriving Repr

/-- the oracle argument for `plan` / `isQuit` on this connection -/
def upperFor (upperOf : List UInt8 → List UInt8) (v : Value) : Option (List UInt8) :=
  match v with
  | .array (.bulk (some c) :: _) => some (upperOf c)
  | _ => none

/-- `process_command` against a stateless limiter -/
def respond (actor : ThrottleReq → ActorAnswer) (upperOf : List UInt8 → List UInt8) (v : Value) :
    Value :=
  match plan v (upperFor upperOf v) with
  | .reply r => r
  | .send req => finish (actor req)

/-- `process_command` against a stateful limiter: reply and new limiter state -/
def respondS {σ : Type} (actor : σ → ThrottleReq → ActorAnswer × σ)
    (upperOf : List UInt8 → List UInt8) (st : σ) (v : Value) : Value × σ :=
  match plan v (upperFor upperOf v) with
  | .reply r => (r, st)
  | .send req => (finish (actor st req).1, (actor st req).2)

inductive DrainEnd
  | more (buffer : List UInt8)   -- `parse` said "need more data"
  | quit
  | error
  deriving Repr

structure DrainRes (σ : Type) where
  out : List UInt8           -- bytes written
  «end» : DrainEnd
  parsed : List Nat          -- lengths of the buffers handed to `parse`, in order
  cmds : List Value          -- commands processed, in order
  st : σ                     -- limiter state afterwards

/-- the inner `while let Some((value, consumed)) = parser.parse(&buffer)?` loop.
    `fuel ≥ buf.length` always suffices because every frame consumes ≥ 1 byte (so the
    `fuel = 0` arm after a successful parse is unreachable: it needs `buf = []`). -/
def drain {σ : Type} (actor : σ → ThrottleReq → ActorAnswer × σ)
    (upperOf : List UInt8 → List UInt8) : Nat → σ → List UInt8 → DrainRes σ
  | fuel, st, buf =>
    match parse buf with
    | .incomplete => ⟨[], .more buf, [buf.length], [], st⟩
    | .error => ⟨[], .error, [buf.length], [], st⟩
    | .ok v n =>
      let rs := respondS actor upperOf st v
      if isQuit v (upperFor upperOf v) then ⟨encode rs.1, .quit, [buf.length], [v], rs.2⟩
      else
        match fuel with
        | 0 => ⟨encode rs.1, .more (buf.drop n), [buf.length], [v], rs.2⟩
        | f + 1 =>
          let r := drain actor upperOf f rs.2 (buf.drop n)
          ⟨encode rs.1 ++ r.out, r.end, buf.length :: r.parsed, v :: r.cmds, r.st⟩

structure ConnRes (σ : Type) where
  out : List UInt8
  «end» : ConnEnd
  parsed : List Nat
  cmds : List Value
  st : σ

/-- outer `loop`: one chunk per successful `read` (empty chunk = EOF) -/
def connLoop {σ : Type} (actor : σ → ThrottleReq → ActorAnswer × σ)
    (upperOf : List UInt8 → List UInt8) : List (List UInt8) → σ → List UInt8 → ConnRes σ
  | [], st, buf => ⟨[], .open buf, [], [], st⟩
  | c :: cs, st, buf =>
    if c.isEmpty then ⟨[], .eof, [], [], st⟩
    else
      let buf1 := buf ++ c
      if buf1.length > RESP_MAX_BUFFER then ⟨[], .overflow, [], [], st⟩
      else
        let r := drain actor upperOf buf1.length st buf1
        match r.end with
        | .more b =>
          let k := connLoop actor upperOf cs r.st b
          ⟨r.out ++ k.out, k.end, r.parsed ++ k.parsed, r.cmds ++ k.cmds, k.st⟩
        | .quit => ⟨r.out, .quit, r.parsed, r.cmds, r.st⟩
        | .error => ⟨r.out, .protocolError, r.parsed, r.cmds, r.st⟩

/-- a connection against a stateful limiter, starting with an empty buffer -/
def connRunS {σ : Type} (actor : σ → ThrottleReq → ActorAnswer × σ)
    (upperOf : List UInt8 → List UInt8) (st : σ) (chunks : List (List UInt8)) : ConnRes σ :=
  connLoop actor upperOf chunks st []

/-- a stateless limiter as a state machine over `Unit` -/
def liftActor (actor : ThrottleReq → ActorAnswer) : Unit → ThrottleReq → ActorAnswer × Unit :=
  fun _ r => (actor r, ())

def connRunFull (actor : ThrottleReq → ActorAnswer) (upperOf : List UInt8 → List UInt8)
    (chunks : List (List UInt8)) : ConnRes Unit :=
  connRunS (liftActor actor) upperOf () chunks

/-- bytes written and how the connection ended -/
def connRun (actor : ThrottleReq → ActorAnswer) (upperOf : List UInt8 → List UInt8)
    (chunks : List (List UInt8)) : List UInt8 × ConnEnd :=
  let r := connRunFull actor upperOf chunks
  (r.out, r.end)

end TcVerif.Resp
