/-
  Model S — the three TTL-expiring in-memory stores of `throttlecrab/src/core/store/`
  and the abstract expiring map they are meant to implement.

  Time is `Int` nanoseconds since the epoch, TTLs / intervals are `Int` nanoseconds (≥ 0).
  `HashMap<String,(i64, Option<SystemTime>)>` is an association list with unique keys
  (`Data.insert` erases before it conses).  The `Option<SystemTime>` is always `Some`
  in the code (no path inserts `None`), so the model stores the expiry directly.
-/
import TcVerif.Model.Basic
import TcVerif.Gen.Consts
namespace TcVerif

structure Entry where
  key : Key
  val : Int
  exp : Int
deriving Repr, DecidableEq, Inhabited

abbrev Data := List Entry

namespace Data

def find : Data → Key → Option (Int × Int)
  | [], _ => none
  | e :: rest, k => if e.key = k then some (e.val, e.exp) else find rest k

/-- remove every entry of `k` -/
def erase : Data → Key → Data
  | [], _ => []
  | e :: rest, k => if e.key = k then erase rest k else e :: erase rest k

def insert (d : Data) (k : Key) (v exp : Int) : Data :=
  ⟨k, v, exp⟩ :: d.erase k

/-- `retain(|_, (_, expiry)| expiry > now)` -/
def sweep : Data → Int → Data
  | [], _ => []
  | e :: rest, now => if e.exp > now then e :: sweep rest now else sweep rest now

def get (d : Data) (k : Key) (now : Int) : Option Int :=
  match d.find k with
  | some (v, exp) => if exp > now then some v else none
  | none => none

/-- the `match self.data.get(key)` of `compare_and_swap_with_ttl` (after any sweep);
    third component: the entry was found expired (adaptive store counts those). -/
def cas (d : Data) (k : Key) (old new ttl now : Int) : Data × Bool × Bool :=
  match d.find k with
  | some (cur, exp) =>
      if exp ≤ now then (d, false, true)
      else if cur = old then (d.insert k new (now + ttl), true, false)
      else (d, false, false)
  | none => (d, false, false)

/-- the `match self.data.get(key)` of `set_if_not_exists_with_ttl` (after any sweep). -/
def setnx (d : Data) (k : Key) (v ttl now : Int) : Data × Bool × Bool :=
  match d.find k with
  | some (_, exp) =>
      if exp > now then (d, false, false)
      else (d.insert k v (now + ttl), true, true)
  | none => (d.insert k v (now + ttl), true, false)

end Data

/-- The interface `trait Store` as a record of pure functions. -/
structure StoreOps (σ : Type) where
  get : σ → Key → Int → Option Int
  cas : σ → Key → Int → Int → Int → Int → σ × Bool      -- key old new ttl now
  setnx : σ → Key → Int → Int → Int → σ × Bool          -- key value ttl now

/-! ### The abstract expiring map (the specification of C06): never sweeps. -/

structure AMap where
  data : Data
deriving Repr, Inhabited

def AMap.empty : AMap := ⟨[]⟩

def AMap.ops : StoreOps AMap where
  get s k now := s.data.get k now
  cas s k old new ttl now := let r := s.data.cas k old new ttl now; (⟨r.1⟩, r.2.1)
  setnx s k v ttl now := let r := s.data.setnx k v ttl now; (⟨r.1⟩, r.2.1)

/-! ### PeriodicStore -/

structure Periodic where
  data : Data
  nextCleanup : Int
  interval : Int
  expiredCount : Nat
deriving Repr, Inhabited

def Periodic.maybeClean (s : Periodic) (now : Int) : Periodic :=
  if now ≥ s.nextCleanup then
    let d' := s.data.sweep now
    { s with data := d', expiredCount := s.data.length - d'.length,
             nextCleanup := now + s.interval }
  else s

def Periodic.ops : StoreOps Periodic where
  get s k now := s.data.get k now
  cas s k old new ttl now :=
    let s := s.maybeClean now
    let r := s.data.cas k old new ttl now
    ({ s with data := r.1 }, r.2.1)
  setnx s k v ttl now :=
    let s := s.maybeClean now
    let r := s.data.setnx k v ttl now
    ({ s with data := r.1 }, r.2.1)

/-! ### AdaptiveStore -/

structure Adaptive where
  data : Data
  nextCleanup : Int
  minI : Int
  maxI : Int
  curI : Int
  expiredCount : Nat
  opsSince : Nat
  maxOps : Nat
  lastRemoved : Nat
  lastTotal : Nat
  /-- oracle for `len > capacity()*3/4` (hashbrown's capacity is not modelled):
      one bit is consumed per write; an exhausted stream reads `false`. -/
  pressure : List Bool
deriving Repr, Inhabited

/-- `should_clean`, with the two f64 comparisons as exact integer inequalities:
    `x/len > T/2.0` ⇔ `2*1000*x > T‰*len` (T = 0.2: `10x > len`) and
    `x/len > T*1.25` ⇔ `4*1000*x > 5*T‰*len` (`4x > len`), valid for len < 2^50. -/
def Adaptive.shouldClean (s : Adaptive) (now : Int) (pressure : Bool) : Bool :=
  if now ≥ s.nextCleanup then true
  else if s.opsSince ≥ s.maxOps then true
  else if s.expiredCount > Gen.ADAPTIVE_EXPIRED_MIN &&
      (let len := max s.data.length 1
       let thr := Gen.ADAPTIVE_RATIO_THRESHOLD_PERMILLE
       if s.lastRemoved > s.lastTotal / Gen.ADAPTIVE_PRODUCTIVE_DIV then 2 * 1000 * s.expiredCount > thr * len
       else 4 * 1000 * s.expiredCount > 5 * thr * len) then true
  else pressure

def Adaptive.cleanup (s : Adaptive) (now : Int) : Adaptive :=
  let initial := s.data.length
  let d' := s.data.sweep now
  let removed := initial - d'.length
  let curI :=
    if removed = 0 ∧ s.expiredCount = 0 then min (s.curI * 2) s.maxI
    else if 2 * removed > initial then max (s.curI / 2) s.minI
    else s.curI
  { s with data := d', curI := curI, lastRemoved := removed, lastTotal := initial,
           nextCleanup := now + curI, expiredCount := 0, opsSince := 0 }

def Adaptive.maybeClean (s : Adaptive) (now : Int) : Adaptive :=
  let bit := s.pressure.headD false
  let s := { s with opsSince := s.opsSince + 1, pressure := s.pressure.tail }
  if s.shouldClean now bit then s.cleanup now else s

def Adaptive.ops : StoreOps Adaptive where
  get s k now := s.data.get k now
  cas s k old new ttl now :=
    let s := s.maybeClean now
    let r := s.data.cas k old new ttl now
    ({ s with data := r.1, expiredCount := if r.2.2 then s.expiredCount + 1 else s.expiredCount }, r.2.1)
  setnx s k v ttl now :=
    let s := s.maybeClean now
    let r := s.data.setnx k v ttl now
    ({ s with data := r.1, expiredCount := if r.2.2 then s.expiredCount + 1 else s.expiredCount }, r.2.1)

/-! ### ProbabilisticStore -/

structure Prob where
  data : Data
  opsCount : Nat
  modulus : Nat
deriving Repr, Inhabited

def PROB_MULT : Nat := Gen.PROB_MULT
def TWO64 : Nat := 18446744073709551616

/-- does the write with (already incremented) op counter `ops` sweep?
    `(u128::from(ops) * 2654435761).is_multiple_of(u128::from(N))` - the product of a `u64` and the
    32-bit multiplier always fits `u128`, so there is no wrap-around; `is_multiple_of(0)` ⇔ `== 0`. -/
def Prob.fires (ops modulus : Nat) : Bool :=
  let h := ops * PROB_MULT
  if modulus = 0 then h = 0 else h % modulus = 0

/-- the trigger as it was before the repair (`ops.wrapping_mul(2654435761).is_multiple_of(N)`, a
    64-bit wrapping product); kept only to state what was wrong with it (`C07_wrapped_trigger_gap`) -/
def Prob.firesWrapped (ops modulus : Nat) : Bool :=
  let h := (ops * PROB_MULT) % TWO64
  if modulus = 0 then h = 0 else h % modulus = 0

def Prob.maybeCleanup (s : Prob) (now : Int) : Prob :=
  let ops := s.opsCount + 1
  let s := { s with opsCount := ops }
  if Prob.fires ops s.modulus then { s with data := s.data.sweep now } else s

def Prob.ops : StoreOps Prob where
  get s k now := s.data.get k now
  cas s k old new ttl now :=
    let s := s.maybeCleanup now
    let r := s.data.cas k old new ttl now
    ({ s with data := r.1 }, r.2.1)
  setnx s k v ttl now :=
    let s := s.maybeCleanup now
    let r := s.data.setnx k v ttl now
    ({ s with data := r.1 }, r.2.1)

end TcVerif

namespace TcVerif

/-- the four store kinds behind one state type (what `enum StoreType` does in the server) -/
inductive AnyStore where
  | amap (s : AMap)
  | periodic (s : Periodic)
  | adaptive (s : Adaptive)
  | prob (s : Prob)
deriving Repr, Inhabited

def AnyStore.data : AnyStore → Data
  | .amap s => s.data
  | .periodic s => s.data
  | .adaptive s => s.data
  | .prob s => s.data

def AnyStore.ops : StoreOps AnyStore where
  get s k now := match s with
    | .amap s => AMap.ops.get s k now
    | .periodic s => Periodic.ops.get s k now
    | .adaptive s => Adaptive.ops.get s k now
    | .prob s => Prob.ops.get s k now
  cas s k old new ttl now := match s with
    | .amap s => let r := AMap.ops.cas s k old new ttl now; (.amap r.1, r.2)
    | .periodic s => let r := Periodic.ops.cas s k old new ttl now; (.periodic r.1, r.2)
    | .adaptive s => let r := Adaptive.ops.cas s k old new ttl now; (.adaptive r.1, r.2)
    | .prob s => let r := Prob.ops.cas s k old new ttl now; (.prob r.1, r.2)
  setnx s k v ttl now := match s with
    | .amap s => let r := AMap.ops.setnx s k v ttl now; (.amap r.1, r.2)
    | .periodic s => let r := Periodic.ops.setnx s k v ttl now; (.periodic r.1, r.2)
    | .adaptive s => let r := Adaptive.ops.setnx s k v ttl now; (.adaptive r.1, r.2)
    | .prob s => let r := Prob.ops.setnx s k v ttl now; (.prob r.1, r.2)

end TcVerif

namespace TcVerif

/-- one call of the `Store` trait -/
inductive SOp where
  | get (k : Key) (now : Int)
  | cas (k : Key) (old new ttl now : Int)
  | setnx (k : Key) (v ttl now : Int)
deriving Repr, DecidableEq

def SOp.now : SOp → Int
  | .get _ now => now
  | .cas _ _ _ _ now => now
  | .setnx _ _ _ now => now

inductive SRes where
  | val (o : Option Int)
  | flag (b : Bool)
deriving Repr, DecidableEq

def applyOp {σ : Type} (S : StoreOps σ) (s : σ) : SOp → σ × SRes
  | .get k now => (s, .val (S.get s k now))
  | .cas k old new ttl now => let r := S.cas s k old new ttl now; (r.1, .flag r.2)
  | .setnx k v ttl now => let r := S.setnx s k v ttl now; (r.1, .flag r.2)

def runOps {σ : Type} (S : StoreOps σ) : σ → List SOp → List SRes
  | _, [] => []
  | s, op :: rest => let r := applyOp S s op; r.2 :: runOps S r.1 rest

/-- timestamps never decrease and start at or after `t0` -/
def NonDecreasingFrom : Int → List Int → Prop
  | _, [] => True
  | t0, t :: rest => t0 ≤ t ∧ NonDecreasingFrom t rest

instance instDecNonDecreasingFrom : (t0 : Int) → (l : List Int) → Decidable (NonDecreasingFrom t0 l)
  | _, [] => isTrue trivial
  | t0, t :: rest =>
    have : Decidable (NonDecreasingFrom t rest) := instDecNonDecreasingFrom t rest
    inferInstanceAs (Decidable (t0 ≤ t ∧ NonDecreasingFrom t rest))

end TcVerif
