/-
  Line-protocol front end for the RESP model (used by the differential harness).
  `driverStep line` returns `none` when the line is not a RESP op.

  Value text syntax (no spaces):  S<hex|->  E<hex|->  I<int>  B<hex|->  N  A[v,v,...]
-/
import TcVerif.Model.Resp

namespace TcVerif.Resp

/-! ## hex -/

def hexDigitVal (c : Char) : Option Nat :=
  if '0' ≤ c ∧ c ≤ '9' then some (c.toNat - '0'.toNat)
  else if 'a' ≤ c ∧ c ≤ 'f' then some (c.toNat - 'a'.toNat + 10)
  else if 'A' ≤ c ∧ c ≤ 'F' then some (c.toNat - 'A'.toNat + 10)
  else none

def parseHexChars : List Char → Option (List UInt8)
  | [] => some []
  | [_] => none
  | a :: b :: rest =>
    match hexDigitVal a, hexDigitVal b, parseHexChars rest with
    | some x, some y, some bs => some (UInt8.ofNat (x * 16 + y) :: bs)
    | _, _, _ => none

/-- `-` is the empty byte string -/
def parseHexTok (cs : List Char) : Option (List UInt8) :=
  if cs = ['-'] then some [] else if cs = [] then none else parseHexChars cs

def parseHex (s : String) : Option (List UInt8) := parseHexTok s.toList

def hexChar (n : Nat) : Char :=
  if n < 10 then Char.ofNat ('0'.toNat + n) else Char.ofNat ('a'.toNat + (n - 10))

def hexOfChars : List UInt8 → List Char
  | [] => []
  | b :: bs => hexChar (b.toNat / 16) :: hexChar (b.toNat % 16) :: hexOfChars bs

def hexOf (bs : List UInt8) : String :=
  match bs with
  | [] => "-"
  | _ => String.ofList (hexOfChars bs)

/-! ## value printer / parser -/

mutual
def showVal : Value → String
  | .simple s => "S" ++ hexOf s
  | .error s => "E" ++ hexOf s
  | .int n => "I" ++ toString n
  | .bulk none => "N"
  | .bulk (some s) => "B" ++ hexOf s
  | .array xs => "A[" ++ showVals xs ++ "]"
def showVals : List Value → String
  | [] => ""
  | [v] => showVal v
  | v :: w :: vs => showVal v ++ "," ++ showVals (w :: vs)
end

def tokSpan (cs : List Char) : List Char × List Char :=
  cs.span fun c => c != ',' && c != ']'

mutual
def pVal : Nat → List Char → Option (Value × List Char)
  | 0, _ => none
  | f + 1, cs =>
    match cs with
    | 'S' :: r =>
      let (tok, rest) := tokSpan r
      match parseHexTok tok with
      | some b => some (.simple b, rest)
      | none => none
    | 'E' :: r =>
      let (tok, rest) := tokSpan r
      match parseHexTok tok with
      | some b => some (.error b, rest)
      | none => none
    | 'B' :: r =>
      let (tok, rest) := tokSpan r
      match parseHexTok tok with
      | some b => some (.bulk (some b), rest)
      | none => none
    | 'I' :: r =>
      let (tok, rest) := tokSpan r
      match (String.ofList tok).toInt? with
      | some n => some (.int n, rest)
      | none => none
    | 'N' :: r => some (.bulk none, r)
    | 'A' :: '[' :: ']' :: r => some (.array [], r)
    | 'A' :: '[' :: r =>
      match pVals f r with
      | some (vs, rest) => some (.array vs, rest)
      | none => none
    | _ => none
def pVals : Nat → List Char → Option (List Value × List Char)
  | 0, _ => none
  | f + 1, cs =>
    match pVal f cs with
    | some (v, ',' :: rest) =>
      match pVals f rest with
      | some (vs, r2) => some (v :: vs, r2)
      | none => none
    | some (v, ']' :: rest) => some ([v], rest)
    | _ => none
end

def parseVal (s : String) : Option Value :=
  let cs := s.toList
  match pVal (cs.length + 1) cs with
  | some (v, []) => some v
  | _ => none

/-! ## actor answers -/

def parseAns (s : String) : Option ActorAnswer :=
  match s.splitOn ":" with
  | ["ok", a, l, r, rs, rt] =>
    match l.toInt?, r.toInt?, rs.toInt?, rt.toInt? with
    | some l, some r, some rs, some rt =>
      if a = "1" then some (.ok true l r rs rt)
      else if a = "0" then some (.ok false l r rs rt)
      else none
    | _, _, _, _ => none
  | ["err", h] =>
    match parseHex h with
    | some m => some (.err m)
    | none => none
  | _ => none

def showResult : DecodeResult → String
  | .ok v n => s!"ok {n} {showVal v}"
  | .incomplete => "incomplete"
  | .error => "error"

def showPlan : CmdPlan → String
  | .reply v => s!"reply {showVal v}"
  | .send r => s!"send {hexOf r.key} {r.burst} {r.count} {r.period} {r.qty}"

def showEnd : ConnEnd → String
  | .open _ => "open"
  | .eof => "eof"
  | .quit => "quit"
  | .protocolError => "error"
  | .overflow => "overflow"

/-- ASCII-only upper-casing (the harness only uses ASCII command names at connection level) -/
def asciiUpper (s : List UInt8) : List UInt8 :=
  s.map fun c => if 97 ≤ c ∧ c ≤ 122 then c - 32 else c

def stubActor (_ : ThrottleReq) : ActorAnswer := .err b!"stub"

def parseChunks : List String → Option (List (List UInt8))
  | [] => some []
  | t :: ts =>
    match parseHex t, parseChunks ts with
    | some c, some cs => some (c :: cs)
    | _, _ => none

def driverStep (line : String) : Option String :=
  match line.trimAscii.toString.splitOn " " with
  | ["rdec", h] =>
    match parseHex h with
    | some d => some (showResult (parse d))
    | none => some "bad-op"
  | ["renc", v] =>
    match parseVal v with
    | some v => some (hexOf (encode v))
    | none => some "bad-op"
  | ["rplan", v, u] =>
    match parseVal v, parseHex u with
    | some v, some u => some (showPlan (plan v (some u)))
    | _, _ => some "bad-op"
  | ["rfinish", a] =>
    match parseAns a with
    | some a => some (showVal (finish a))
    | none => some "bad-op"
  | ["rmetric", v, u, a] =>
    match parseVal v, parseHex u with
    | some v, some u =>
      let ans : Option (Option ActorAnswer) :=
        if a = "-" then some none else (parseAns a).map some
      match ans with
      | some ans =>
        if counted v (some u) then
          let (allowed, key) := metricOutcome v (some u) ans
          let k := match key with
            | some k => hexOf k
            | none => "nokey"
          some ((if allowed then "allowed " else "denied ") ++ k)
        else some "uncounted"
      | none => some "bad-op"
    | _, _ => some "bad-op"
  | "rconn" :: chunks =>
    match parseChunks chunks with
    | some cs =>
      let (out, e) := connRun stubActor asciiUpper cs
      some (hexOf out ++ " " ++ showEnd e)
    | none => some "bad-op"
  | _ => none

end TcVerif.Resp
