/-
  Model B — the ideal token bucket that C02/C03 use as the specification.
  Credit is measured in nanoseconds: capacity `B*E`, refilled by 1 ns of credit per ns,
  a request for `q` tokens costs `q*E`.  `none` = a key that was never seen (full bucket).
-/
import TcVerif.Model.Basic
namespace TcVerif

structure Bucket where
  lvl : Int
  ts : Int
deriving Repr, DecidableEq, Inhabited

/-- level after refilling up to time `t` -/
def Bucket.refill (BE : Int) (b : Option Bucket) (t : Int) : Int :=
  match b with
  | none => BE
  | some b => min BE (b.lvl + (t - b.ts))

/-- one request `(t, q)`: new state, admitted?, remaining tokens -/
def Bucket.step (B E : Int) (b : Option Bucket) (t q : Int) : Option Bucket × Bool × Int :=
  let lvl := Bucket.refill (B * E) b t
  let adm := decide (q * E ≤ lvl)
  let lvl' := if adm then lvl - q * E else lvl
  (some ⟨lvl', t⟩, adm, lvl' / E)

/-- decisions of a whole single-key history `(t, q)` -/
def Bucket.run (B E : Int) : Option Bucket → List (Int × Int) → List Bool
  | _, [] => []
  | b, (t, q) :: rest =>
    let (b', a, _) := Bucket.step B E b t q
    a :: Bucket.run B E b' rest

/-- decisions and remaining tokens of a whole single-key history `(t, q)` -/
def Bucket.runFull (B E : Int) : Option Bucket → List (Int × Int) → List (Bool × Int)
  | _, [] => []
  | b, (t, q) :: rest =>
    let s := Bucket.step B E b t q
    (s.2.1, s.2.2) :: Bucket.runFull B E s.1 rest

end TcVerif
