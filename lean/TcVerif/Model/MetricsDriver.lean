/-
  Line-protocol front end for the metrics model (used by the differential harness).
  `driverStep line` returns `none` when the line is not a metrics op.

    mrun <ev> <ev> ...            ev = h1|h0|g1|g0|r1|r0|he|ge|re
        -> "total http grpc redis allowed denied errors"
    mtab                          -> "<RECORD_REQUEST_INCS joined by ,>|<RECORD_ERROR_INCS joined by ,>"
    tstep <max> <before> <keyhex> <after>   -> ok | bad      (`checkStep`)
    treport <max> <table> <report>          -> ok | bad      (`checkReport`)
    tclamp <n>                    -> "<clamped> enabled|disabled"
    esc <hex of UTF-8 bytes>      -> hex of the UTF-8 bytes of `escapeLabel` ("-" when empty), or bad

  Tables: `hex:count,hex:count,...` or `-` for the empty table; the empty key is the empty string
  before the colon.  `<keyhex>` may be empty (two consecutive spaces) or `-` for the empty key.
  Malformed operands give `bad-op`.
-/
import TcVerif.Model.Metrics
import TcVerif.Model.RespDriver

namespace TcVerif.Metrics

def parseEvent (s : String) : Option Event :=
  match s.toList with
  | [t, o] =>
    let tr : Option Transport :=
      if t = 'h' then some .http else if t = 'g' then some .grpc
      else if t = 'r' then some .redis else none
    match tr with
    | none => none
    | some tr =>
      if o = '1' then some (.request tr true)
      else if o = '0' then some (.request tr false)
      else if o = 'e' then some (.error tr)
      else none
  | _ => none

def parseEvents : List String → Option (List Event)
  | [] => some []
  | t :: ts =>
    match parseEvent t, parseEvents ts with
    | some e, some es => some (e :: es)
    | _, _ => none

def showCounters (c : Counters) : String :=
  s!"{c.total} {c.http} {c.grpc} {c.redis} {c.allowed} {c.denied} {c.errors}"

/-- key operand: empty string or `-` is the empty key -/
def parseKeyHex (s : String) : Option Key :=
  if s = "" ∨ s = "-" then some [] else Resp.parseHexChars s.toList

def parseEntry (s : String) : Option (Key × Nat) :=
  match s.splitOn ":" with
  | [h, n] =>
    match (if h = "" then some [] else Resp.parseHexChars h.toList), n.toNat? with
    | some k, some n => some (k, n)
    | _, _ => none
  | _ => none

def parseEntries : List String → Option Table
  | [] => some []
  | t :: ts =>
    match parseEntry t, parseEntries ts with
    | some e, some es => some (e :: es)
    | _, _ => none

def parseTable (s : String) : Option Table :=
  if s = "-" then some [] else parseEntries (s.splitOn ",")

def okBad (b : Bool) : String := if b then "ok" else "bad"

def hexOrDash (bs : List UInt8) : String :=
  match bs with
  | [] => "-"
  | _ => String.ofList (Resp.hexOfChars bs)

/-- `escapeLabel` on the UTF-8 byte level (core codec on both sides) -/
def escapeBytes (bs : List UInt8) : Option (List UInt8) :=
  match String.fromUTF8? (ByteArray.mk bs.toArray) with
  | some s => some (String.ofList (escapeLabel s.toList)).toUTF8.toList
  | none => none

def driverStep (line : String) : Option String :=
  match line.trimAscii.toString.splitOn " " with
  | "mrun" :: evs =>
    match parseEvents (evs.filter (· ≠ "")) with
    | some es => some (showCounters (Counters.recordAll {} es))
    | none => some "bad-op"
  | ["mtab"] =>
    some (",".intercalate recordRequestIncs ++ "|" ++ ",".intercalate recordErrorIncs)
  | ["tstep", m, b, k, a] =>
    match m.toNat?, parseTable b, parseKeyHex k, parseTable a with
    | some m, some b, some k, some a => some (okBad (checkStep m b k a))
    | _, _, _, _ => some "bad-op"
  | ["treport", m, t, r] =>
    match m.toNat?, parseTable t, parseTable r with
    | some m, some t, some r => some (okBad (checkReport m t r))
    | _, _, _ => some "bad-op"
  | ["tclamp", n] =>
    match n.toNat? with
    | some n =>
      let c := clampMax n
      some (s!"{c} " ++ (if c = 0 then "disabled" else "enabled"))
    | none => some "bad-op"
  | ["esc"] => some "-"
  | ["esc", h] =>
    match parseKeyHex h with
    | some bs =>
      match escapeBytes bs with
      | some out => some (hexOrDash out)
      | none => some "bad"
    | none => some "bad"
  | _ => none

end TcVerif.Metrics
