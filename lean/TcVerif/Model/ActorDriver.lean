/-
  Trace validator for the actor LTS (`Model/Actor.lean`) instantiated with the GCRA model.

    atrace <cap> <store> <ev>;<ev>;…        → `ok <nproc>` | `reject <event index> <reason>`
    atrace-loose <cap> <store> <ev>;<ev>;…  → same, `enq` lines may be late (see below)

  <store> = amap | periodic:<nextCleanupNs>:<intervalNs> | prob:<modulus>
          | adaptive:<nextNs>:<minNs>:<maxNs>:<curNs>:<maxOps>
  <ev>    = call:<client>:<idx>:<keyhex|->:<burst>:<count>:<period>:<qty>:<timestampNs>
          | enq:<client>:<idx> | proc:<client>:<idx>:<resp> | ret:<client>:<idx>:<resp>
          | cancel:<client>:<idx>
  <resp>  = ok,<0|1>,<limit>,<remaining>,<resetSecs>,<retrySecs> | err

  The programs are discovered from the `call` events (client `c`'s program = its `call`
  requests in order; their idx must be 0,1,2,…).  Every event is replayed through
  `Actor.step?` and must be enabled; a `proc` must name the queue head and carry the model's
  response (`rateLimit AnyStore.ops`, converted like `ThrottleResponse::from`); a `ret` must
  carry the response computed at its `proc`.

  Loose mode (multi-threaded runtime: the `enq` line is written by the client task after
  `tx.send` returned, so it can appear after the actor's `proc` line of the same request,
  and one message can be popped but not yet logged as `proc`):
    * a `proc` of a request whose client is still `sending` is an implicit enqueue at the
      queue head; its `enq` line may follow later (at most once) or never;
    * a `proc` of a request that was cancelled while `sending` means the cancel happened
      after the message had entered the queue: it is processed, its reply discarded;
    * capacity is checked with a slack of one (the popped-but-not-yet-logged message);
    * FIFO among the `enq` lines that are present, exactly-once and response equality are
      enforced as in strict mode.
-/
import TcVerif.Model.Actor
import TcVerif.Model.Gcra
import TcVerif.Model.RespDriver

namespace TcVerif.Actor

/-- the GCRA model as the actor's limiter: total, a library error is an `err*` outcome -/
def gcraLimiter : Limiter AnyStore Req Outcome where
  step s r := let x := rateLimit AnyStore.ops s r; some (x.1, x.2.1)

/-- `ThrottleResponse` (or the `Err` of `handle_throttle`) as the transports see it -/
inductive WResp where
  | ok (allowed : Bool) (limit remaining resetSecs retrySecs : Int)
  | err
deriving DecidableEq, Repr, Inhabited

def NS_PER_SEC : Int := 1000000000

/-- `ThrottleResponse::from`: `Duration::as_secs()` truncates -/
def toWire : Outcome → WResp
  | .ok a l rem rs rt => .ok a l rem (Int.tdiv rs NS_PER_SEC) (Int.tdiv rt NS_PER_SEC)
  | _ => .err

inductive TEv where
  | call (c i : Nat) (r : Req)
  | enq (c i : Nat)
  | proc (c i : Nat) (w : WResp)
  | ret (c i : Nat) (w : WResp)
  | cancel (c i : Nat)
deriving Repr, Inhabited

def TEv.client : TEv → Nat
  | .call c .. => c
  | .enq c _ => c
  | .proc c .. => c
  | .ret c .. => c
  | .cancel c _ => c

/-! ## parsing -/

def parseKey (h : String) : Option String :=
  match Resp.parseHex h with
  | some bs => String.fromUTF8? (ByteArray.mk bs.toArray)
  | none => none

def parseWResp (s : String) : Option WResp :=
  match s.splitOn "," with
  | ["err"] => some .err
  | ["ok", a, l, r, rs, rt] =>
    match l.toInt?, r.toInt?, rs.toInt?, rt.toInt? with
    | some l, some r, some rs, some rt =>
      if a = "1" then some (.ok true l r rs rt)
      else if a = "0" then some (.ok false l r rs rt)
      else none
    | _, _, _, _ => none
  | _ => none

def parseEv (s : String) : Option TEv :=
  match s.splitOn ":" with
  | ["call", c, i, k, b, cnt, p, q, t] =>
    match c.toNat?, i.toNat?, parseKey k, b.toInt?, cnt.toInt?, p.toInt?, q.toInt?, t.toInt? with
    | some c, some i, some k, some b, some cnt, some p, some q, some t =>
      some (.call c i ⟨k, b, cnt, p, q, t⟩)
    | _, _, _, _, _, _, _, _ => none
  | ["enq", c, i] =>
    match c.toNat?, i.toNat? with
    | some c, some i => some (.enq c i)
    | _, _ => none
  | ["proc", c, i, w] =>
    match c.toNat?, i.toNat?, parseWResp w with
    | some c, some i, some w => some (.proc c i w)
    | _, _, _ => none
  | ["ret", c, i, w] =>
    match c.toNat?, i.toNat?, parseWResp w with
    | some c, some i, some w => some (.ret c i w)
    | _, _, _ => none
  | ["cancel", c, i] =>
    match c.toNat?, i.toNat? with
    | some c, some i => some (.cancel c i)
    | _, _ => none
  | _ => none

def parseEvs : List String → Option (List TEv)
  | [] => some []
  | t :: ts =>
    if t = "" then parseEvs ts else
    match parseEv t, parseEvs ts with
    | some e, some es => some (e :: es)
    | _, _ => none

def parseStore (s : String) : Option AnyStore :=
  match s.splitOn ":" with
  | ["amap"] => some (.amap AMap.empty)
  | ["periodic", nc, iv] =>
    match nc.toInt?, iv.toInt? with
    | some nc, some iv => some (.periodic ⟨[], nc, iv, 0⟩)
    | _, _ => none
  | ["prob", m] =>
    match m.toNat? with
    | some m => some (.prob ⟨[], 0, m⟩)
    | none => none
  | ["adaptive", nc, mn, mx, cur, mo] =>
    match nc.toInt?, mn.toInt?, mx.toInt?, cur.toInt?, mo.toNat? with
    | some nc, some mn, some mx, some cur, some mo =>
      some (.adaptive ⟨[], nc, mn, mx, cur, 0, 0, mo, 0, 0, []⟩)
    | _, _, _, _, _ => none
  | _ => none

/-! ## programs from the `call` events -/

abbrev Progs := List (Nat × List Req)

def Progs.get (ps : Progs) (c : Nat) : List Req :=
  match ps with
  | [] => []
  | (c', l) :: rest => if c' = c then l else Progs.get rest c

def Progs.push (ps : Progs) (c : Nat) (r : Req) : Progs :=
  match ps with
  | [] => [(c, [r])]
  | (c', l) :: rest => if c' = c then (c', l ++ [r]) :: rest else (c', l) :: Progs.push rest c r

/-- collect the programs; `Except.error k` = the `call` at event index `k` has the wrong idx -/
def collectProgs : List TEv → Nat → Progs → Except Nat Progs
  | [], _, ps => .ok ps
  | .call c i r :: rest, k, ps =>
    if (ps.get c).length = i then collectProgs rest (k + 1) (ps.push c r) else .error k
  | _ :: rest, k, ps => collectProgs rest (k + 1) ps

def numClients : List TEv → Nat
  | [] => 0
  | e :: rest => max (e.client + 1) (numClients rest)

/-! ## replay -/

abbrev VState := State AnyStore Req Outcome

structure Replay where
  s : VState
  /-- loose mode: implicitly enqueued requests whose `enq` line may still come -/
  pendingEnq : List Id := []
  /-- loose mode: requests cancelled while `sending` (the message may have been queued already) -/
  cancelledSending : List Id := []

def gcraSys (cap : Nat) (ps : Progs) : Sys AnyStore Req Outcome :=
  { lim := gcraLimiter, cap := cap, prog := fun c => ps.get c }

/-- the model's `proc` step, checked against the logged response -/
def doProc (M : Sys AnyStore Req Outcome) (st : Replay) (s : VState) (w : WResp) : Except String Replay :=
  match step? M s .proc with
  | none => .error "proc-disabled"
  | some s' =>
    match (procLog s'.log).getLast? with
    | some (_, _, rs) => if toWire rs = w then .ok { st with s := s' } else .error "proc-response-mismatch"
    | none => .error "proc-disabled"

/-- loose mode: request `(c,i)` was cancelled while `sending`, yet it is processed -/
def looseCancelled (M : Sys AnyStore Req Outcome) (st : Replay) (c i : Nat) (w : WResp) (r : Req) :
    Except String Replay :=
  if (c, i) ∈ st.cancelledSending then
    let s1 : VState := { st.s with abandoned := (c, i) :: st.s.abandoned,
                                   queue := ((c, i), r) :: st.s.queue,
                                   log := st.s.log ++ [.enq (c, i) r] }
    doProc M { st with cancelledSending := st.cancelledSending.erase (c, i) } s1 w
  else .error "proc-not-queue-head"

/-- loose mode: the processed request is not the head of the model queue -/
def looseProc (M : Sys AnyStore Req Outcome) (st : Replay) (c i : Nat) (w : WResp) : Except String Replay :=
  match (M.prog c)[i]? with
  | none => .error "proc-unknown-request"
  | some r =>
    if st.s.queue.length ≥ M.cap + 1 then .error "proc-implicit-enq-queue-full" else
    match st.s.clients[c]? with
    | some ⟨pc, .sending⟩ =>
      if pc = i then
        let s1 : VState := { st.s with clients := st.s.clients.set c ⟨pc, .waiting⟩,
                                       queue := ((c, i), r) :: st.s.queue,
                                       log := st.s.log ++ [.enq (c, i) r] }
        doProc M { st with pendingEnq := (c, i) :: st.pendingEnq } s1 w
      else looseCancelled M st c i w r
    | _ => looseCancelled M st c i w r

def replayEv (M : Sys AnyStore Req Outcome) (loose : Bool) (st : Replay) : TEv → Except String Replay
  | .call c i _ =>
    match st.s.clients[c]? with
    | some ⟨pc, .idle⟩ =>
      if pc ≠ i then .error "call-wrong-index" else
      match step? M st.s (.call c) with
      | some s' => .ok { st with s := s' }
      | none => .error "call-disabled"
    | _ => .error "call-not-idle"
  | .enq c i =>
    if loose ∧ (c, i) ∈ st.pendingEnq then
      .ok { st with pendingEnq := st.pendingEnq.erase (c, i) }
    else
    match st.s.clients[c]? with
    | some ⟨pc, .sending⟩ =>
      if pc ≠ i then .error "enq-wrong-index" else
      let M' := if loose then { M with cap := M.cap + 1 } else M
      match step? M' st.s (.enq c) with
      | some s' => .ok { st with s := s' }
      | none => .error "enq-queue-full"
    | _ => .error "enq-not-sending"
  | .proc c i w =>
    match st.s.queue with
    | ((c', i'), _) :: _ =>
      if c' = c ∧ i' = i then doProc M st st.s w else
      if loose then looseProc M st c i w else .error "proc-not-queue-head"
    | [] => if loose then looseProc M st c i w else .error "proc-queue-empty"
  | .ret c i w =>
    match st.s.clients[c]? with
    | some ⟨pc, .waiting⟩ =>
      if pc ≠ i then .error "ret-wrong-index" else
      match findReply (c, i) st.s.replies with
      | some rs =>
        if toWire rs ≠ w then .error "ret-response-mismatch" else
        match step? M st.s (.ret c) with
        | some s' => .ok { st with s := s' }
        | none => .error "ret-disabled"
      | none => .error "ret-no-reply"
    | _ => .error "ret-not-waiting"
  | .cancel c i =>
    match st.s.clients[c]? with
    | some ⟨pc, stt⟩ =>
      if pc ≠ i then .error "cancel-wrong-index" else
      match step? M st.s (.cancel c) with
      | some s' =>
        .ok { st with s := s',
                      cancelledSending := if stt = .sending then (c, i) :: st.cancelledSending
                                          else st.cancelledSending }
      | none => .error "cancel-not-pending"
    | none => .error "cancel-unknown-client"

def replay (M : Sys AnyStore Req Outcome) (loose : Bool) : Replay → List TEv → Nat → String
  | st, [], _ => s!"ok {(procLog st.s.log).length}"
  | st, e :: rest, k =>
    match replayEv M loose st e with
    | .ok st' => replay M loose st' rest (k + 1)
    | .error why => s!"reject {k} {why}"

def validate (loose : Bool) (cap : Nat) (store : AnyStore) (evs : List TEv) : String :=
  match collectProgs evs 0 [] with
  | .error k => s!"reject {k} call-wrong-index"
  | .ok ps =>
    replay (gcraSys cap ps) loose { s := init (numClients evs) store } evs 0

def runTrace (loose : Bool) (cap store : String) (evs : String) : String :=
  match cap.toNat?, parseStore store, parseEvs (evs.splitOn ";") with
  | some cap, some store, some evs => if cap = 0 then "bad-op" else validate loose cap store evs
  | _, _, _ => "bad-op"

def driverStep (line : String) : Option String :=
  match line.trimAscii.toString.splitOn " " with
  | ["atrace", cap, store, evs] => some (runTrace false cap store evs)
  | ["atrace", cap, store] => some (runTrace false cap store "")
  | ["atrace-loose", cap, store, evs] => some (runTrace true cap store evs)
  | ["atrace-loose", cap, store] => some (runTrace true cap store "")
  | _ => none

end TcVerif.Actor
