/-
  Model G — `RateLimiter::rate_limit` (throttlecrab/src/core/rate_limiter.rs), bit-precise:
  i64 saturating arithmetic as clamps, every early return an explicit outcome.
  The emission interval `E` (nanoseconds, as the u64 that `Rate::period().as_nanos()` holds)
  is a parameter of `rateLimitE`; `rateLimit` instantiates it with the soft-float
  replica of `Rate::from_count_and_period`.
-/
import TcVerif.Model.Basic
import TcVerif.Model.Store
import TcVerif.Model.SoftFloat
namespace TcVerif

structure Req where
  key : Key
  burst : Int
  count : Int
  period : Int
  qty : Int
  now : Int
deriving Repr, DecidableEq, Inhabited

inductive Outcome where
  | ok (allowed : Bool) (limit remaining resetNs retryNs : Int)
  | errNegativeQuantity
  | errInvalidRateLimit
  | errInternal
deriving Repr, DecidableEq, Inhabited

def Outcome.allowed : Outcome → Bool
  | .ok a _ _ _ _ => a
  | _ => false

/-- one store operation issued by the limiter, as a recording wrapper `Store` sees it -/
inductive StoreOp where
  | get (key : Key) (now : Int) (res : Option Int)
  | cas (key : Key) (old new ttl now : Int) (res : Bool)
  | setnx (key : Key) (val ttl now : Int) (res : Bool)
deriving Repr, DecidableEq

/-- the interval as the limiter uses it: `as_nanos().min(i64::MAX) as i64` -/
def eNs (E : Int) : Int := if E > I64_MAX then I64_MAX else E

/-- tolerance `τ = E ⊗ (B-1)` -/
def tauNs (E B : Int) : Int := satMul (eNs E) (B - 1)

/-- `stored_tat.max(min_tat)`, or `min_tat` for a key that is not there -/
def effTat (minTat : Int) (tatVal : Option Int) : Int :=
  match tatVal with
  | some stored => max stored minTat
  | none => minTat

/-- everything `rate_limit` computes from what `get` returned, before touching the store again -/
structure Decision where
  allowed : Bool
  /-- the store is written only for an admitted request of positive quantity -/
  write : Bool
  tat : Int
  newTat : Int
  ttl : Int
  outcome : Outcome
deriving Repr, DecidableEq

def decision (E : Int) (r : Req) (tatVal : Option Int) : Decision :=
  let e := eNs E
  let tau := tauNs E r.burst
  let now := r.now
  let minTat := satSub now e
  let tat := effTat minTat tatVal
  let increment := satMul e r.qty
  let newTat := satAdd tat increment
  let allowAt := satSub newTat tau
  let allowed := decide (now ≥ allowAt)
  let pad := max tau e
  let ttl := max (satAdd (satSub newTat now) pad) 0
  let cur := if allowed then newTat else tat
  let burstLimit := satAdd now tau
  let room := satSub burstLimit cur
  let remaining := if e > 0 then max (Int.tdiv room e) 0 else 0
  let reset := max (satAdd (satSub cur now) pad) 0
  let retry := if allowed then 0 else max (satSub allowAt now) 0
  { allowed := allowed, write := allowed && decide (r.qty > 0), tat := tat, newTat := newTat, ttl := ttl,
    outcome := .ok allowed r.burst remaining reset retry }

/-- body of the retry loop; `fuel` = retries left (MAX_RETRIES = 10). -/
def rlLoop {σ : Type} (S : StoreOps σ) : Nat → σ → Int → Req → List StoreOp → σ × Outcome × List StoreOp
  | 0, s, _, _, tr => (s, .errInternal, tr)
  | fuel + 1, s, E, r, tr =>
    let tatVal := S.get s r.key r.now
    let tr := tr ++ [StoreOp.get r.key r.now tatVal]
    let d := decision E r tatVal
    if d.write then
      match tatVal with
      | some old =>
        let w := S.cas s r.key old d.newTat d.ttl r.now
        let tr := tr ++ [StoreOp.cas r.key old d.newTat d.ttl r.now w.2]
        if w.2 then (w.1, d.outcome, tr) else rlLoop S fuel w.1 E r tr
      | none =>
        let w := S.setnx s r.key d.newTat d.ttl r.now
        let tr := tr ++ [StoreOp.setnx r.key d.newTat d.ttl r.now w.2]
        if w.2 then (w.1, d.outcome, tr) else rlLoop S fuel w.1 E r tr
    else (s, d.outcome, tr)

def MAX_RETRIES : Nat := Gen.MAX_RETRIES

/-- `rate_limit` for a given emission interval `E` (0 ≤ E < 2^64). -/
def rateLimitE {σ : Type} (S : StoreOps σ) (s : σ) (E : Int) (r : Req) : σ × Outcome × List StoreOp :=
  if r.qty < 0 then (s, .errNegativeQuantity, [])
  else if r.burst ≤ 0 ∨ r.count ≤ 0 ∨ r.period ≤ 0 then (s, .errInvalidRateLimit, [])
  else rlLoop S MAX_RETRIES s E r []

/-- `rate_limit` with the interval computed as the code computes it. -/
def rateLimit {σ : Type} (S : StoreOps σ) (s : σ) (r : Req) : σ × Outcome × List StoreOp :=
  rateLimitE S s (emissionInterval r.count r.period) r

/-- run a whole history -/
def runE {σ : Type} (S : StoreOps σ) (ei : Int → Int → Int) : σ → List Req → List Outcome
  | _, [] => []
  | s, r :: rs =>
    let (s', o, _) := rateLimitE S s (ei r.count r.period) r
    o :: runE S ei s' rs

/-- run a whole history, keeping each request next to its outcome -/
def runTagged {σ : Type} (S : StoreOps σ) (ei : Int → Int → Int) : σ → List Req → List (Req × Outcome)
  | _, [] => []
  | s, r :: rs =>
    let res := rateLimitE S s (ei r.count r.period) r
    (r, res.2.1) :: runTagged S ei res.1 rs

end TcVerif
