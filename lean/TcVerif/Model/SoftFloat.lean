/-
  Soft-float replica of `Rate::from_count_and_period`:
      (period_seconds as f64 * 1_000_000_000.0 / count as f64) as u64
  IEEE-754 binary64, round-to-nearest-even, for positive normal values only (the
  operands here are in [1e-10, 1e28]: no subnormals, no overflow), written over `Nat`.
  A positive float is `m * 2^e` with `2^52 ≤ m < 2^53`.
-/
import TcVerif.Model.Basic
import TcVerif.Gen.Consts
namespace TcVerif

structure F64 where
  m : Nat
  e : Int
deriving Repr, DecidableEq, Inhabited

def P52 : Nat := 4503599627370496
def P53 : Nat := 9007199254740992

/-- quotient, remainder and denominator of `n / (d * 2^e)` -/
def scaledDiv (n d : Nat) (e : Int) : Nat × Nat × Nat :=
  if e ≥ 0 then
    let den := d * 2 ^ e.toNat
    (n / den, n % den, den)
  else
    let num := n * 2 ^ (-e).toNat
    (num / d, num % d, d)

/-- round the positive rational `n/d` to binary64 (round-to-nearest, ties-to-even). -/
def rne (n d : Nat) : F64 :=
  if n = 0 then ⟨0, 0⟩ else
  let k : Int := (Nat.log2 n : Int) - (Nat.log2 d : Int)
  let e0 := k - 52
  let e := if (scaledDiv n d e0).1 < P52 then e0 - 1 else e0
  let (q, r, den) := scaledDiv n d e
  let up : Bool := decide (2 * r > den) || (decide (2 * r = den) && decide (q % 2 = 1))
  let m := if up then q + 1 else q
  if m = P53 then ⟨P52, e + 1⟩ else ⟨m, e⟩

def F64.ofNat (x : Nat) : F64 := rne x 1

def F64.mul (a b : F64) : F64 :=
  let f := rne (a.m * b.m) 1
  ⟨f.m, f.e + a.e + b.e⟩

def F64.div (a b : F64) : F64 :=
  let f := rne a.m b.m
  ⟨f.m, f.e + a.e - b.e⟩

/-- `f as u64`: truncate toward zero, saturate at u64::MAX -/
def F64.toU64 (f : F64) : Nat :=
  let v := if f.e ≥ 0 then f.m * 2 ^ f.e.toNat else f.m / 2 ^ (-f.e).toNat
  if v > 18446744073709551615 then 18446744073709551615 else v

/-- nanoseconds of `Duration::from_secs(u64::MAX)` -/
def BLOCKING_NS : Int := 18446744073709551615 * 1000000000

/-- `Rate::from_count_and_period(count, period).period().as_nanos()` -/
def emissionInterval (count period : Int) : Int :=
  if count ≤ 0 ∨ period ≤ 0 then BLOCKING_NS
  else
    let pf := F64.ofNat period.toNat
    let x := F64.mul pf (F64.ofNat Gen.NS_PER_SEC)
    let y := F64.div x (F64.ofNat count.toNat)
    (F64.toU64 y : Int)

/-- `Rate::per_second(n)` etc.: `Duration::from_secs(k) / (n as u32)`; `none` = division by zero panic -/
def unitRate (k : Nat) (n : Nat) : Option Nat :=
  let d := n % 4294967296
  if d = 0 then none else some (k * Gen.NS_PER_SEC / d)

end TcVerif
