/-
  Model of `throttlecrab-server/src/metrics.rs`.

  * seven `AtomicU64` counters, each bump one `fetch_add(1, Relaxed)`;
  * `record_request` / `record_error` as lists of atomic increments in program order;
  * concurrency: any interleaving of the increment lists of any number of in-flight calls;
  * `TopDeniedKeys` (hash map, unspecified tie order) as RELATIONS over association lists,
    with a deterministic executable instance and executable checkers;
  * `MetricsBuilder::max_denied_keys` / `build`;
  * `escape_prometheus_label`, the per-key sample line, the seven counter samples;
  * a Prometheus label-value lexer used to state "the key cannot break out of its quotes".

  Representation choices
  * a key is the byte string `List UInt8` in the tracker (`String::len()` is the BYTE length);
  * escaping works on `List Char` (Rust iterates `chars()`); the two views of one key are related
    by UTF-8 (the driver converts with the core codec, Rust `String`s are always valid UTF-8).
-/
import TcVerif.Gen.Consts

namespace TcVerif.Metrics
open TcVerif.Gen

/-! ## Counters -/

inductive Transport
  | http | grpc | redis
  deriving DecidableEq, Repr

/-- the seven `AtomicU64` fields of `Metrics` -/
inductive Counter
  | total | http | grpc | redis | allowed | denied | errors
  deriving DecidableEq, Repr

/-- Rust field name -/
def Counter.name : Counter → String
  | .total => "total_requests"
  | .http => "http_requests"
  | .grpc => "grpc_requests"
  | .redis => "redis_requests"
  | .allowed => "requests_allowed"
  | .denied => "requests_denied"
  | .errors => "requests_errors"

def Counter.all : List Counter := [.total, .http, .grpc, .redis, .allowed, .denied, .errors]

structure Counters where
  total : Nat := 0
  http : Nat := 0
  grpc : Nat := 0
  redis : Nat := 0
  allowed : Nat := 0
  denied : Nat := 0
  errors : Nat := 0
  deriving DecidableEq, Repr

def Counters.get (c : Counters) : Counter → Nat
  | .total => c.total
  | .http => c.http
  | .grpc => c.grpc
  | .redis => c.redis
  | .allowed => c.allowed
  | .denied => c.denied
  | .errors => c.errors

/-- one `fetch_add(1, Relaxed)` (a u64 cannot wrap in any feasible run: 2^64 increments) -/
def Counters.bump (c : Counters) : Counter → Counters
  | .total => { c with total := c.total + 1 }
  | .http => { c with http := c.http + 1 }
  | .grpc => { c with grpc := c.grpc + 1 }
  | .redis => { c with redis := c.redis + 1 }
  | .allowed => { c with allowed := c.allowed + 1 }
  | .denied => { c with denied := c.denied + 1 }
  | .errors => { c with errors := c.errors + 1 }

def Transport.counter : Transport → Counter
  | .http => .http
  | .grpc => .grpc
  | .redis => .redis

/-- one call of `record_request(t, allowed)` or `record_error(t)` -/
inductive Event
  | request (t : Transport) (allowed : Bool)
  | error (t : Transport)
  deriving DecidableEq, Repr

/-- the atomic increments of the call IN PROGRAM ORDER -/
def Event.incs : Event → List Counter
  | .request t allowed => [.total, t.counter, if allowed then .allowed else .denied]
  | .error t => [.total, .errors, t.counter]

def Event.transport : Event → Transport
  | .request t _ => t
  | .error t => t

def Event.isAllowed : Event → Bool
  | .request _ true => true
  | _ => false

def Event.isDenied : Event → Bool
  | .request _ false => true
  | _ => false

def Event.isError : Event → Bool
  | .error _ => true
  | _ => false

def Event.onTransport (t : Transport) (e : Event) : Bool := decide (e.transport = t)

/-- a whole call executed without interruption -/
def Counters.record (c : Counters) (e : Event) : Counters := e.incs.foldl Counters.bump c

/-- sequential execution of a list of calls (driver op `mrun`) -/
def Counters.recordAll (c : Counters) (es : List Event) : Counters := es.foldl Counters.record c

/-! ### Increment tables (tied to the generated `Gen.RECORD_*_INCS` in `Props/C15.lean`) -/

def insertSorted (s : String) : List String → List String
  | [] => [s]
  | x :: xs => if s < x then s :: x :: xs else if s = x then x :: xs else x :: insertSorted s xs

/-- sorted, de-duplicated -/
def sortDedup (l : List String) : List String := l.foldr insertSorted []

def allTransports : List Transport := [.http, .grpc, .redis]

/-- every `record_request` call shape -/
def requestEvents : List Event :=
  allTransports.flatMap fun t => [Event.request t true, Event.request t false]

/-- every `record_error` call shape -/
def errorEvents : List Event := allTransports.map Event.error

def incNames (es : List Event) : List String :=
  sortDedup (es.flatMap fun e => e.incs.map Counter.name)

/-- names of all counters `record_request` can bump, over all its branches -/
def recordRequestIncs : List String := incNames requestEvents

/-- names of all counters `record_error` can bump, over all its branches -/
def recordErrorIncs : List String := incNames errorEvents

/-! ## Concurrency model

Any number of recorder calls run on any number of threads.  A call in flight is its event plus the
increments it has not performed yet.  A step starts a call, performs the NEXT increment of some
call in flight, or retires a call that has finished.  Every interleaving of the per-call increment
lists is a path of `Step`s and vice versa.  (`Relaxed` atomics: each `fetch_add` is still an atomic
read-modify-write, there is a single modification order per counter, so counter VALUES are exactly
the number of `fetch_add`s performed; the identities are stated at quiescent points, where every
increment of every started call has been performed.) -/

structure Flight where
  event : Event
  remaining : List Counter
  deriving Repr

structure State where
  counters : Counters
  flights : List Flight
  /-- ghost: every call started so far, newest first -/
  history : List Event

def State.init : State := ⟨{}, [], []⟩

inductive Step : State → State → Prop
  | start (s : State) (e : Event) :
      Step s { s with flights := ⟨e, e.incs⟩ :: s.flights, history := e :: s.history }
  | inc (s : State) (pre post : List Flight) (e : Event) (c : Counter) (rest : List Counter) :
      s.flights = pre ++ ⟨e, c :: rest⟩ :: post →
      Step s { s with counters := s.counters.bump c, flights := pre ++ ⟨e, rest⟩ :: post }
  | finish (s : State) (pre post : List Flight) (e : Event) :
      s.flights = pre ++ ⟨e, []⟩ :: post →
      Step s { s with flights := pre ++ post }

inductive Reachable : State → Prop
  | init : Reachable State.init
  | step {s s' : State} : Reachable s → Step s s' → Reachable s'

/-- no request in flight (every started call has performed all its increments) -/
def Quiescent (s : State) : Prop := ∀ f ∈ s.flights, f.remaining = []

/-! ## Denied-key tracker -/

abbrev Key := List UInt8

/-- the hash map as an association list; well-formed tables have distinct keys -/
abbrev Table := List (Key × Nat)

def KeysNodup (t : Table) : Prop := (t.map (·.1)).Nodup

instance (t : Table) : Decidable (KeysNodup t) := by unfold KeysNodup; exact inferInstance

/-- the count stored for `k` (0 if absent) -/
def cnt : Table → Key → Nat
  | [], _ => 0
  | (k', n) :: t, k => (if k' = k then n else 0) + cnt t k

/-- `*counts.entry(key).or_insert(0) += 1` -/
def bumpKey : Table → Key → Table
  | [], k => [(k, 1)]
  | (k', n) :: t, k => if k' = k then (k', n + 1) :: t else (k', n) :: bumpKey t k

/-- `cleanup` with any tie-breaking: `after` is a sub-table of `before` with `min max len` entries
    and no dropped entry has a larger count than a kept one. -/
def ValidCleanup (max : Nat) (before after : Table) : Prop :=
  KeysNodup after ∧
  (∀ e ∈ after, e ∈ before) ∧
  after.length = min max before.length ∧
  (∀ d ∈ before, d ∉ after → ∀ k ∈ after, d.2 ≤ k.2)

instance (max : Nat) (before after : Table) : Decidable (ValidCleanup max before after) := by
  unfold ValidCleanup; exact inferInstance

/-- `TopDeniedKeys::update(key)` with any tie-breaking.  Tables are unordered: "unchanged" and
    "equal" mean equal up to a permutation of the entries. -/
def ValidStep (max : Nat) (before : Table) (key : Key) (after : Table) : Prop :=
  KeysNodup before ∧
  if key.length > METRICS_MAX_KEY_LENGTH then after.Perm before
  else if (bumpKey before key).length > max * METRICS_GROWTH_FACTOR then
    ValidCleanup max (bumpKey before key) after
  else after.Perm (bumpKey before key)

instance (max : Nat) (before : Table) (key : Key) (after : Table) :
    Decidable (ValidStep max before key after) := by
  unfold ValidStep; exact inferInstance

/-- `get_top` with any tie-breaking -/
def ValidReport (max : Nat) (table : Table) (report : List (Key × Nat)) : Prop :=
  KeysNodup report ∧
  (∀ e ∈ report, e ∈ table) ∧
  report.length = min max table.length ∧
  report.Pairwise (fun a b => a.2 ≥ b.2) ∧
  (∀ d ∈ table, d ∉ report → ∀ r ∈ report, d.2 ≤ r.2)

instance (max : Nat) (table : Table) (report : List (Key × Nat)) :
    Decidable (ValidReport max table report) := by
  unfold ValidReport; exact inferInstance

/-- executable checkers: decide the relations on concrete (unordered) tables -/
def checkCleanup (max : Nat) (before after : Table) : Bool := decide (ValidCleanup max before after)
def checkStep (max : Nat) (before : Table) (key : Key) (after : Table) : Bool :=
  decide (ValidStep max before key after)
def checkReport (max : Nat) (table : Table) (report : List (Key × Nat)) : Bool :=
  decide (ValidReport max table report)

/-! ### Deterministic instance (stable insertion sort by count, descending) -/

def insertDesc (e : Key × Nat) : Table → Table
  | [] => [e]
  | x :: xs => if x.2 > e.2 then x :: insertDesc e xs else e :: x :: xs

def sortDesc : Table → Table
  | [] => []
  | e :: t => insertDesc e (sortDesc t)

def cleanupDet (max : Nat) (t : Table) : Table :=
  if t.length ≤ max then t else (sortDesc t).take max

def stepDet (max : Nat) (t : Table) (key : Key) : Table :=
  if key.length > METRICS_MAX_KEY_LENGTH then t
  else if (bumpKey t key).length > max * METRICS_GROWTH_FACTOR then cleanupDet max (bumpKey t key)
  else bumpKey t key

def reportDet (max : Nat) (t : Table) : List (Key × Nat) := (sortDesc t).take max

/-! ### Runs of the tracker with a ghost stream -/

/-- `Run max stream table`: `table` can result from the denials `stream` (oldest first; keys of
    every length, the tracker filters) under SOME tie-breaking of every cleanup. -/
inductive Run (max : Nat) : List Key → Table → Prop
  | nil : Run max [] []
  | snoc {stream : List Key} {t t' : Table} {k : Key} :
      Run max stream t → ValidStep max t k t' → Run max (stream ++ [k]) t'

/-- ghost: how often `k` was really denied -/
def trueCount (stream : List Key) (k : Key) : Nat := stream.count k

/-- keys the tracker does not ignore -/
def shortKeys (stream : List Key) : List Key :=
  stream.filter fun k => k.length ≤ METRICS_MAX_KEY_LENGTH

/-- first occurrences -/
def distinctKeys : List Key → List Key
  | [] => []
  | k :: s => if k ∈ distinctKeys s then distinctKeys s else k :: distinctKeys s

/-- number of distinct tracked keys denied so far -/
def distinctShort (stream : List Key) : Nat := (distinctKeys (shortKeys stream)).length

/-! ## Builder -/

/-- `count.clamp(0, MAX_DENIED_KEYS_LIMIT)` on `usize` -/
def clampMax (requested : Nat) : Nat := min requested METRICS_MAX_DENIED_KEYS_LIMIT

def enabled (n : Nat) : Prop := n ≠ 0

instance (n : Nat) : Decidable (enabled n) := by unfold enabled; exact inferInstance

structure TopDenied where
  table : Table
  maxSize : Nat
  deriving Repr

structure Metrics where
  counters : Counters
  top : Option TopDenied
  deriving Repr

/-- `Metrics::builder().max_denied_keys(requested).build()` -/
def build (requested : Nat) : Metrics :=
  { counters := {}
    top := if clampMax requested = 0 then none else some ⟨[], clampMax requested⟩ }

/-- `Metrics::new()` -/
def buildDefault : Metrics :=
  { counters := {}
    top := if METRICS_DEFAULT_MAX_DENIED = 0 then none else some ⟨[], METRICS_DEFAULT_MAX_DENIED⟩ }

/-- tracker part of `record_request_with_key(_, allowed, key)` -/
def TopStep (top : Option TopDenied) (allowed : Bool) (key : Key) (top' : Option TopDenied) : Prop :=
  match top with
  | none => top' = none
  | some td =>
    if allowed then top' = some td
    else ∃ t', ValidStep td.maxSize td.table key t' ∧ top' = some ⟨t', td.maxSize⟩

/-- a metrics call run to completion: `record_request_with_key`, `record_request`, `record_error` -/
inductive MStep : Metrics → Metrics → Prop
  | withKey (m : Metrics) (t : Transport) (allowed : Bool) (key : Key) (top' : Option TopDenied) :
      TopStep m.top allowed key top' →
      MStep m ⟨m.counters.record (.request t allowed), top'⟩
  | noKey (m : Metrics) (t : Transport) (allowed : Bool) :
      MStep m ⟨m.counters.record (.request t allowed), m.top⟩
  | error (m : Metrics) (t : Transport) :
      MStep m ⟨m.counters.record (.error t), m.top⟩

inductive MReachable (requested : Nat) : Metrics → Prop
  | init : MReachable requested (build requested)
  | step {m m' : Metrics} : MReachable requested m → MStep m m' → MReachable requested m'

/-- what the tracker holds -/
def keptKeys (m : Metrics) : Table :=
  match m.top with
  | none => []
  | some td => td.table

/-! ## Prometheus export -/

/-- `char::is_control()`: Unicode general category Cc -/
def isControl (c : Char) : Bool := c.val ≤ 0x1F || (0x7F ≤ c.val && c.val ≤ 0x9F)

/-- lowercase hex digit -/
def hexDigit (n : Nat) : Char :=
  if n < 10 then Char.ofNat (48 + n) else Char.ofNat (87 + n)

/-- `c as u8`: the low byte of the scalar value -/
def lowByte (c : Char) : Nat := c.val.toNat % 256

def escapeChar (c : Char) : List Char :=
  if c = '"' then ['\\', '"']
  else if c = '\\' then ['\\', '\\']
  else if c = '\n' then ['\\', 'n']
  else if c = '\r' then ['\\', 'r']
  else if c = '\t' then ['\\', 't']
  else if isControl c then ['\\', 'x', hexDigit (lowByte c / 16), hexDigit (lowByte c % 16)]
  else [c]

/-- `escape_prometheus_label` -/
def escapeLabel : List Char → List Char
  | [] => []
  | c :: cs => escapeChar c ++ escapeLabel cs

/-- `format!("{}", n)` for an unsigned integer -/
def natDigits (n : Nat) : List Char := Nat.toDigits 10 n

def keyLinePrefix : List Char := "throttlecrab_top_denied_keys{key=\"".toList

/-- `,rank="` -/
def rankInfix : List Char := [',', 'r', 'a', 'n', 'k', '=', '"']

/-- `"} ` -/
def closeInfix : List Char := ['"', '}', ' ']

/-- what follows the key's closing quote: `,rank="<rank+1>"} <count>\n`;
    `rank` is the 0-based `enumerate()` index -/
def keyLineSuffix (rank count : Nat) : List Char :=
  rankInfix ++ natDigits (rank + 1) ++ closeInfix ++ natDigits count ++ ['\n']

/-- `throttlecrab_top_denied_keys{key="<escaped>",rank="<rank+1>"} <count>\n` -/
def exportKeyLine (key : List Char) (rank count : Nat) : List Char :=
  keyLinePrefix ++ escapeLabel key ++ '"' :: keyLineSuffix rank count

def exportKeyLinesFrom (rank : Nat) : List (List Char × Nat) → List (List Char)
  | [] => []
  | (k, n) :: r => exportKeyLine k rank n :: exportKeyLinesFrom (rank + 1) r

def topHelpLine : List Char :=
  "# HELP throttlecrab_top_denied_keys Top keys by denial count\n".toList
def topTypeLine : List Char := "# TYPE throttlecrab_top_denied_keys gauge\n".toList

/-- the top-denied-keys section of `export_prometheus` for a report whose keys are given as chars
    (UTF-8 decoding of the tracker's byte keys); nothing at all when tracking is disabled -/
def exportTop (top : Option TopDenied) (report : List (List Char × Nat)) : List (List Char) :=
  match top with
  | none => []
  | some _ => topHelpLine :: topTypeLine :: exportKeyLinesFrom 0 report

/-- the seven counter samples of `export_prometheus` in file order: (text before the value, value) -/
def exportCounters (c : Counters) : List (String × Nat) :=
  [ ("throttlecrab_requests_total", c.total),
    ("throttlecrab_requests_by_transport{transport=\"http\"}", c.http),
    ("throttlecrab_requests_by_transport{transport=\"grpc\"}", c.grpc),
    ("throttlecrab_requests_by_transport{transport=\"redis\"}", c.redis),
    ("throttlecrab_requests_allowed", c.allowed),
    ("throttlecrab_requests_denied", c.denied),
    ("throttlecrab_requests_errors", c.errors) ]

/-- lexer state machine: `escaped` = the previous char was an unescaped backslash -/
def scanLabelAux : Bool → List Char → Option (List Char × List Char)
  | _, [] => none
  | true, c :: rest =>
    match scanLabelAux false rest with
    | some (v, r) => some (c :: v, r)
    | none => none
  | false, c :: rest =>
    if c = '"' then some ([], rest)
    else
      match scanLabelAux (decide (c = '\\')) rest with
      | some (v, r) => some (c :: v, r)
      | none => none

/-- Prometheus label-value lexer, started right after the opening `"`: reads up to the first
    unescaped `"` (a backslash escapes the next char); returns the raw value text and the rest
    after the closing quote, `none` if the input ends first. -/
def scanLabel (cs : List Char) : Option (List Char × List Char) := scanLabelAux false cs

/-- strict variant (Prometheus text format 0.0.4 as implemented by the Go `expfmt` parser): only
    `\\`, `\"` and `\n` are legal escapes, anything else after a backslash is a parse error -/
def scanLabelStrictAux : Bool → List Char → Option (List Char × List Char)
  | _, [] => none
  | true, c :: rest =>
    if c = '\\' ∨ c = '"' ∨ c = 'n' then
      match scanLabelStrictAux false rest with
      | some (v, r) => some (c :: v, r)
      | none => none
    else none
  | false, c :: rest =>
    if c = '"' then some ([], rest)
    else
      match scanLabelStrictAux (decide (c = '\\')) rest with
      | some (v, r) => some (c :: v, r)
      | none => none

def scanLabelStrict (cs : List Char) : Option (List Char × List Char) := scanLabelStrictAux false cs

end TcVerif.Metrics
