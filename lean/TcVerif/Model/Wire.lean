/-
  Model W — how the three transports map a logical request to the library call and the
  library's answer to the wire (types.rs, transport/http.rs, transport/grpc.rs; the RESP
  mapping is `Resp.plan` / `Resp.finish` in Model/Resp.lean).
-/
import TcVerif.Model.Basic
import TcVerif.Model.Gcra
import TcVerif.Model.Resp
import TcVerif.Gen.Consts
namespace TcVerif.Wire

/-- the common response type `ThrottleResponse` (durations in whole seconds) -/
structure WResp where
  allowed : Bool
  limit : Int
  remaining : Int
  resetS : Int
  retryS : Int
deriving Repr, DecidableEq

def NS_PER_SEC : Int := 1000000000

/-- `impl From<(bool, RateLimitResult)> for ThrottleResponse`: `Duration::as_secs()` -/
def toResponse : Outcome → Option WResp
  | .ok a l r resetNs retryNs => some ⟨a, l, r, resetNs / NS_PER_SEC, retryNs / NS_PER_SEC⟩
  | _ => none

/-- the logical request every transport builds (timestamp is taken by the transport) -/
structure LogicalReq where
  key : List UInt8
  burst : Int
  count : Int
  period : Int
  qty : Int
deriving Repr, DecidableEq

/-- HTTP JSON body: `quantity` is optional -/
def httpRequest (key : List UInt8) (burst count period : Int) (qty : Option Int) : LogicalReq :=
  ⟨key, burst, count, period, qty.getD (Gen.HTTP_DEFAULT_QUANTITY : Int)⟩

/-- gRPC: int32 fields widened with `as i64` -/
def grpcRequest (key : List UInt8) (burst count period qty : Int) : LogicalReq :=
  ⟨key, burst, count, period, qty⟩

/-- gRPC response: every integer narrowed with `as i32` -/
structure GrpcResp where
  allowed : Bool
  limit : Int
  remaining : Int
  retryAfter : Int
  resetAfter : Int
deriving Repr, DecidableEq

def grpcResponse (r : WResp) : GrpcResp :=
  ⟨r.allowed, wrapI32 r.limit, wrapI32 r.remaining, wrapI32 r.retryS, wrapI32 r.resetS⟩

/-- HTTP response: the JSON object carries the five fields unchanged -/
def httpResponse (r : WResp) : WResp := r

/-- RESP: the request a THROTTLE command denotes, if it is well-formed -/
def respRequest (v : Resp.Value) (upper : Option (List UInt8)) : Option LogicalReq :=
  match Resp.plan v upper with
  | .send r => some ⟨r.key, r.burst, r.count, r.period, r.qty⟩
  | .reply _ => none

def respAnswer (r : WResp) : Resp.ActorAnswer := .ok r.allowed r.limit r.remaining r.resetS r.retryS

def inI32 (x : Int) : Prop := -2147483648 ≤ x ∧ x ≤ 2147483647

end TcVerif.Wire
