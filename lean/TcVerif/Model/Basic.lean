/-
  Basic arithmetic vocabulary shared by the models: i64 saturating operations and
  casts as total functions over `Int`.  No imports (core only) so that the driver links.
-/
namespace TcVerif

abbrev Key := String

def I64_MAX : Int := 9223372036854775807
def I64_MIN : Int := -9223372036854775808
def U64_MAX : Int := 18446744073709551615

/-- clamp an unbounded integer into the `i64` range (what `saturating_*` does). -/
def clampI64 (x : Int) : Int :=
  if x > I64_MAX then I64_MAX else if x < I64_MIN then I64_MIN else x

def satAdd (a b : Int) : Int := clampI64 (a + b)
def satSub (a b : Int) : Int := clampI64 (a - b)
def satMul (a b : Int) : Int := clampI64 (a * b)

def inI64 (x : Int) : Prop := I64_MIN ≤ x ∧ x ≤ I64_MAX

instance (x : Int) : Decidable (inI64 x) := by unfold inI64; exact inferInstance

/-- `x as i32` for an `i64` (two's-complement truncation). -/
def wrapI32 (x : Int) : Int :=
  let m := x % 4294967296
  if m ≥ 2147483648 then m - 4294967296 else m

/-- Rust's truncating integer division `a / b` (b ≠ 0). -/
def tdiv (a b : Int) : Int := Int.tdiv a b

end TcVerif
