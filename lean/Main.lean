/-
  Line-protocol driver: one request line in, one reply line out.  Compiled as `lean_exe driver`.
  Only the IO loop is `partial`; every model function it calls is the kernel-checked definition.
-/
import TcVerif.Model.Basic
import TcVerif.Model.SoftFloat
import TcVerif.Model.Store
import TcVerif.Model.Gcra
import TcVerif.Model.Bucket
import TcVerif.Model.RespDriver
import TcVerif.Model.MetricsDriver
import TcVerif.Model.ActorDriver
open TcVerif

structure DState where
  store : AnyStore := .amap AMap.empty
  bB : Int := 1
  bE : Int := 1
  bucket : Option Bucket := none

def showOptInt : Option Int → String
  | none => "none"
  | some v => s!"some {v}"

def insertSorted (e : Entry) : List Entry → List Entry
  | [] => [e]
  | x :: xs => if e.key < x.key then e :: x :: xs else x :: insertSorted e xs

def sortEntries (d : Data) : List Entry := d.foldl (fun acc e => insertSorted e acc) []

def showData (d : Data) : String :=
  ",".intercalate ((sortEntries d).map fun e => s!"{e.key}:{e.val}:{e.exp}")

def showStore : AnyStore → String
  | .amap s => s!"amap entries={showData s.data}"
  | .periodic s => s!"periodic next={s.nextCleanup} interval={s.interval} expired={s.expiredCount} entries={showData s.data}"
  | .adaptive s => s!"adaptive next={s.nextCleanup} min={s.minI} max={s.maxI} cur={s.curI} expired={s.expiredCount} ops={s.opsSince} maxops={s.maxOps} lastrem={s.lastRemoved} lasttot={s.lastTotal} entries={showData s.data}"
  | .prob s => s!"prob ops={s.opsCount} mod={s.modulus} entries={showData s.data}"

def setPressure (s : AnyStore) (bit : Bool) : AnyStore :=
  match s with
  | .adaptive a => .adaptive { a with pressure := List.replicate 10 bit }
  | s => s

def showOp : StoreOp → String
  | .get k now r => s!"get {k} {now} {showOptInt r}"
  | .cas k o n ttl now r => s!"cas {k} {o} {n} {ttl} {now} {r}"
  | .setnx k v ttl now r => s!"setnx {k} {v} {ttl} {now} {r}"

def showOutcome : Outcome → String
  | .ok a l r rs rt => s!"ok {a} {l} {r} {rs} {rt}"
  | .errNegativeQuantity => "err neg"
  | .errInvalidRateLimit => "err invalid"
  | .errInternal => "err internal"

def ints? (ts : List String) : Option (List Int) := ts.mapM String.toInt?

def bitOf (ts : List String) : Bool := ts == ["1"]

def step (st : DState) (line : String) : DState × String :=
  match line.trimAscii.toString.splitOn " " with
  | "note" :: _ => (st, line.trimAscii.toString)      -- descriptive line (no model content): echoed
  | ["ei", c, p] =>
    match ints? [c, p] with
    | some [c, p] => (st, toString (emissionInterval c p))
    | _ => (st, "bad-op")
  | ["unit", k, n] =>
    match k.toNat?, n.toNat? with
    | some k, some n => (st, match unitRate k n with | some v => toString v | none => "panic")
    | _, _ => (st, "bad-op")
  | ["snew", "amap"] => ({ st with store := .amap AMap.empty }, "ok")
  | ["snew", "periodic", nc, iv] =>
    match ints? [nc, iv] with
    | some [nc, iv] => ({ st with store := .periodic ⟨[], nc, iv, 0⟩ }, "ok")
    | _ => (st, "bad-op")
  | ["snew", "adaptive", nc, mn, mx, cur, mo] =>
    match ints? [nc, mn, mx, cur], mo.toNat? with
    | some [nc, mn, mx, cur], some mo =>
      ({ st with store := .adaptive ⟨[], nc, mn, mx, cur, 0, 0, mo, 0, 0, []⟩ }, "ok")
    | _, _ => (st, "bad-op")
  | ["snew", "prob", m] =>
    match m.toNat? with
    | some m => ({ st with store := .prob ⟨[], 0, m⟩ }, "ok")
    | none => (st, "bad-op")
  | ["snew", "prob", m, c] =>          -- the store after `c` write operations
    match m.toNat?, c.toNat? with
    | some m, some c => ({ st with store := .prob ⟨[], c, m⟩ }, "ok")
    | _, _ => (st, "bad-op")
  | ["sget", k, now] =>
    match now.toInt? with
    | some now => (st, showOptInt (AnyStore.ops.get st.store k now))
    | none => (st, "bad-op")
  | "scas" :: k :: o :: n :: ttl :: now :: pr =>
    match ints? [o, n, ttl, now] with
    | some [o, n, ttl, now] =>
      let (s', r) := AnyStore.ops.cas (setPressure st.store (bitOf pr)) k o n ttl now
      ({ st with store := s' }, toString r)
    | _ => (st, "bad-op")
  | "ssetnx" :: k :: v :: ttl :: now :: pr =>
    match ints? [v, ttl, now] with
    | some [v, ttl, now] =>
      let (s', r) := AnyStore.ops.setnx (setPressure st.store (bitOf pr)) k v ttl now
      ({ st with store := s' }, toString r)
    | _ => (st, "bad-op")
  | ["ssnap"] => (st, showStore st.store)
  | "rl" :: k :: b :: c :: p :: q :: now :: pr =>
    match ints? [b, c, p, q, now] with
    | some [b, c, p, q, now] =>
      let (s', o, tr) := rateLimit AnyStore.ops (setPressure st.store (bitOf pr)) ⟨k, b, c, p, q, now⟩
      ({ st with store := s' }, showOutcome o ++ " |" ++ String.join (tr.map fun op => " " ++ showOp op ++ ";"))
    | _ => (st, "bad-op")
  | "rle" :: e :: k :: b :: c :: p :: q :: now :: pr =>
    match ints? [e, b, c, p, q, now] with
    | some [e, b, c, p, q, now] =>
      let (s', o, tr) := rateLimitE AnyStore.ops (setPressure st.store (bitOf pr)) e ⟨k, b, c, p, q, now⟩
      ({ st with store := s' }, showOutcome o ++ " |" ++ String.join (tr.map fun op => " " ++ showOp op ++ ";"))
    | _ => (st, "bad-op")
  | ["bnew", b, e] =>
    match ints? [b, e] with
    | some [b, e] => ({ st with bB := b, bE := e, bucket := none }, "ok")
    | _ => (st, "bad-op")
  | ["bstep", t, q] =>
    match ints? [t, q] with
    | some [t, q] =>
      let (b', a, rem) := Bucket.step st.bB st.bE st.bucket t q
      ({ st with bucket := b' }, s!"{a} {rem}")
    | _ => (st, "bad-op")
  | _ =>
    match TcVerif.Resp.driverStep line with
    | some o => (st, o)
    | none =>
      match TcVerif.Metrics.driverStep line with
      | some o => (st, o)
      | none =>
        match TcVerif.Actor.driverStep line with
        | some o => (st, o)
        | none => (st, "bad-op")

partial def loop (h : IO.FS.Stream) (out : IO.FS.Stream) (st : DState) : IO Unit := do
  let line ← h.getLine
  if line.isEmpty then return ()
  let (st', o) := step st line
  out.putStrLn o
  loop h out st'

def main : IO Unit := do
  let stdin ← IO.getStdin
  let stdout ← IO.getStdout
  loop stdin stdout {}
